#!/bin/sh
# Build the overlay venv used by every check (offline; wheels from /opt/veriftools/wheels).
set -e
cd "$(dirname "$0")"
V=.venv
if [ -x $V/bin/python ] && $V/bin/python -c "import z3, numpy" >/dev/null 2>&1; then
  exit 0
fi
rm -rf $V
/venv/bin/python -m venv $V
SP=$V/lib/python3.12/site-packages
# /venv's packages become visible; trimesh itself is always imported from /repo (see symx/boot.py)
printf "import site; site.addsitedir('/venv/lib/python3.12/site-packages')\n" > $SP/overlay.pth
PIP_NO_INDEX=1 $V/bin/pip install -q --no-index --find-links /opt/veriftools/wheels z3-solver cvc5 crosshair-tool jsonschema >/dev/null 2>&1 || \
PIP_NO_INDEX=1 $V/bin/pip install -q --no-index --find-links /opt/veriftools/wheels z3-solver
$V/bin/python -c "import z3, numpy; print('overlay ok', z3.get_version_string(), numpy.__version__)"
