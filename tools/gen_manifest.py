#!/usr/bin/env python3
"""regenerate MANIFEST.json from the table below (run from /verif)"""
import json
import os

HERE = os.path.dirname(os.path.dirname(os.path.abspath(__file__)))

TRUSTED = ("Trusted base: z3 5.1.0 (nlsat / LIA / BV) verdicts; the symx engine (symx/core.py, symx/nparr.py: numpy object-array semantics re-implemented for "
           "symbolic elements, validated per unit by translator validation against the float code); reals stand in for float64 (rounding, NaN, inf outside the claim); ")

# id -> (level, design_ref, technique, level text, level note (assumptions), engine)
CLAIMED = {
    "C03": ("other", "DESIGN.md#c03", "symbolic execution of the real mass-property code on z3 reals; polynomial identities decided by z3 nlsat; counterexample replay on float code",
            "Bounded-in-shape, unbounded-in-value decision: for ONE arbitrary triangle (flux lemma) and ONE arbitrary tetrahedron / pillow every reported quantity equals the closed-form integral for ALL real coordinates, "
            "densities, centre overrides and frame translations (frame rotations from an exact rational catalogue). By additivity of the code over triangles and the divergence theorem the flux lemma carries the result to closed meshes of any size. "
            "This is the right level because the property is an algebraic identity, which a solver decides outright while tests only sample it.",
            TRUSTED + "divergence theorem; frame rotations restricted to the 8-element rational catalogue (2 in quick)."),
    "C19": ("other", "DESIGN.md#c19", "symbolic execution of trimesh.transformations on z3 reals with angles as unit-circle points; algebraic identities decided by z3 nlsat per path; counterexample replay",
            "For all unit quaternions / all angle triples (24 conventions, regular and exact-gimbal branch) / all axes, points, affine matrices inside the stated boxes the round trips and group laws hold on every path of the real code. "
            "The branches selected by the largest diagonal element and the gimbal threshold are paths, not samples. Bounded only by the stated boxes and the sub-space union for compose/decompose.",
            TRUSTED + "angles modulo 2 pi; eigh/svd based paths (quaternion_from_matrix(isprecise=False), rotation_from_matrix, align_vectors, fix_rigid repair), slerp interior and decompose_matrix with symbolic angles are not claimed; gimbal band 0<|cos b|<=8.9e-16 not claimed."),
    "C06": ("other", "DESIGN.md#c06", "symbolic execution of the real trimesh.grouping code on 64-bit bit-vectors (numpy int64 wrap semantics) and reals; sorting by comparison forking; z3 (bit-vector / LIA) decides each path; replay on the float code",
            "For EVERY int64 value (bit-vectors: magnitudes below, at and above every packing limit are interior points) and small row counts the grouping primitives return exactly the partition given by element-wise comparison; "
            "the bit packing of hashable_rows is shown injective on exactly the range the code's own check admits, the np.void fallback elsewhere. Bounded by rows (3-4), columns (1-5), elements (4-6).",
            TRUSTED + "np.void/structured views compare like row tuples (numpy contract, stubbed by RowKey); sort order of groups is not part of the claim; unique_bincount values concretised (< 5); larger arrays not claimed."),
    "C13": ("other", "DESIGN.md#c13", "symbolic execution of trimesh.voxel.runlength on z3 Int run counts with a universally quantified dense position (prefix-sum oracle); dense-domain runs enumerated by solver-driven forks; VoxelGrid index maps in linear real/int arithmetic",
            "Run-length codecs: for every sequence of up to 5 runs with counts of ANY magnitude (up to a stated multiple of the dtype maximum where the code builds repeat lists) the converted encoding decodes to the same dense array at every position (one forall-position obligation per path). "
            "Encoding classes and dense round trips: every bool array of 4-6 cells x every mask, through each read API separately. VoxelGrid: every translation and in-cell offset, scale from a rational catalogue.",
            TRUSTED + "counts non-negative; the binvox file body is not claimed (C-level codecs, cf. C08); encoding classes only on 2x2x1 arrays; five genuine defects of the lazy encoding views are listed in known_findings.json."),
    "C09": ("model_checking", "DESIGN.md#c09", "symbolic histories (forest shape, mutation kinds/operands, query sweeps as solver variables resolved by forking) run on the real SceneGraph with symbolic edge matrices; z3 decides every answer against a dictionary reference forest; counterexample histories replayed on float code",
            "Bounded symbolic model checking of the real scene graph: every history of (initial forest over 4 frames) ; optional full query sweep ; 1 (quick) or 2 (thorough) mutations with symbolic operands ; sweeps in between ; "
            "full sweep + edge-list rebuild is executed, and for ALL edge matrices in the group x->s*x+t each query equals the product along the reference path (or raises when disconnected). "
            "Caches (resolved transforms, shortest paths, forest hash) are exercised by the sweep placement, which is what staleness depends on.",
            TRUSTED + "edge matrices restricted to uniform-scale+translation (non-commutative, closed under product/inverse) with prime-separated scales so that the 1e-8 shortcuts and fix_rigid's SVD band are unreachable; at most 4 frames and 2 mutations; kwargs other than matrix= are covered by C19."),
    "C02": ("model_checking", "DESIGN.md#c02", "bounded model checking with z3 of the dirty-flag transition system extracted (measured) from the real TrackedArray and numpy dispatch; all stale routes enumerated by blocking clauses until unsat; every trace replayed on the real class",
            "The program of numpy operations is the solver variable: for every program of 3 (quick: 3-4, thorough: up to 6) steps over hash reads, 11 alias-creating operations and 36 write routes on up to three aliasing objects, z3 either proves no stale memoised hash is reachable or returns the route, "
            "which is executed on a real TrackedArray and compared with hash_fast(tobytes()). Routes that are genuine today are listed in known_findings.json by route class; any other route (a dropped dirty flag, an un-overridden method, a weakened __array_finalize__) is a violation.",
            "Trusted base: z3; the measured environment table (effect of each numpy operation on bytes / dirty flags / aliasing is data independent) - validated because every reported trace is replayed and spurious ones refine the table; full-coverage views only (partial views a[1:3] need index tracking), one write per program, dtypes float64/int64/uint8 of shape (4,3)."),
    "C11": ("other", "DESIGN.md#c11", "symbolic execution of intersections.mesh_plane / slice_faces_plane on a real Trimesh with z3-real coordinates; every vertex sign class forks; z3 nlsat decides per path; counterexample replay",
            "Union of fully symbolic sub-spaces: (A) EVERY triangle |x|<=1000 x each axis plane x every offset - all sign patterns incl. vertices exactly on the plane and edges in it - the returned segment equals the exact intersection of plane and triangle, a segment exists iff the plane separates the vertices, "
            "and the vector areas of the two opposite slices add up to the original with every piece on its side; (B) catalogue triangles x oblique rational unit normals x every offset; (C) catalogue tetrahedra x normals x every offset: the section is one closed loop.",
            TRUSTED + "unit plane normals; slices: vertices exactly on the plane or >= 1e-6 away; caps, cap volumes, watertightness of capped halves (shapely/earcut), mesh_multiplane and Trimesh.section path assembly (SVD, vertex merging) not claimed."),
    "C12": ("other", "DESIGN.md#c12", "symbolic execution of ray_triangle.ray_triangle_id / ray_bounds, triangles.closest_point and points_to_barycentric on z3 reals with the r-tree replaced by its contract; definitional oracle (exact plane/line intersection, barycentric inclusion, existential closer-point query); replay on float code",
            "Pruning soundness of ray_bounds for ALL rays, boxes and ray parameters; for catalogue triangles x catalogue directions x EVERY origin the reported hits equal the all-triangles definition at margin (hit / behind / miss, single and two triangles, first-hit = nearest); "
            "closest_point for catalogue triangles x EVERY query point: the result is in the triangle and the solver finds no closer point of the triangle on any of the seven region paths; barycentric coordinates exact.",
            TRUSTED + "r-tree contract stub; embree (compiled) and the 'both engines agree' clause not claimed; point containment and signed distance not claimed; proximity.closest_point on a two-triangle catalogue mesh with kd-tree / r-tree contract stubs; general-position margins 1e-3."),
    "C04": ("other", "DESIGN.md#c04", "symbolic execution of apply_transform of Trimesh, PointCloud, Path3D, Scene and VoxelGrid with z3-real coordinates and matrix parameters; z3 nlsat decides per path; counterexample replay",
            "For a symbolic tetrahedron and every matrix of the families translation / diag scale with all sign patterns / shear / scaled catalogue rotation / near-identity on each side of the 1e-8 and 1e-6 shortcuts: every vertex moves to M.v, faces are re-wound exactly when det<0, "
            "M then M^-1 restores the mesh, A then B equals B.A; volume scales by |det| and the centre of mass maps through M (catalogue tetrahedron, symbolic matrix); the same point law for point clouds, 3D paths (with discrete read before or not), a scene node and a voxel grid.",
            TRUSTED + "np.random.random inside flips_winding is an environment stub with a fixed draw (independence from the draw is not decided by z3 and not claimed); primitives, 2D paths, cameras/lights not claimed; area/inertia laws follow from C03 applied to the verified vertices and are not re-proved."),
    "C01": ("other", "DESIGN.md#c01", "inductive step over the real Trimesh cache executed symbolically: read-set x one mutator with symbolic arguments x comparison of every derived value with a freshly built mesh; z3 decides numeric keys per path, topology keys are concrete per path",
            "From a state in which the cache holds exactly what a fresh mesh computes (a chosen read-set: nothing / everything / normals only / topology only) ONE mutator runs - apply_transform over the matrix families of C04 with symbolic parameters, in-place and re-assigning edits with a symbolic value, "
            "invert, update_faces, update_vertices, remove_unreferenced_vertices, copy(include_cache) - and 19 derived values equal those of a mesh rebuilt from the resulting arrays for ALL parameter values. The post-state is again 'equal to fresh', so interleavings of any length follow by induction; the bound is the mesh (catalogue tetrahedron / strip).",
            TRUSTED + "catalogue meshes; vertex_normals, ray/nearest structures, kd-tree, hull, principal axes not compared (only that mutators dump them is exercised through the data hash, C02's subject); scale matrices either exact similarities or >= 1e-3 anisotropic (1e-8 similarity band excluded)."),
    "C05": ("other", "DESIGN.md#c05", "symbolic execution of geometry.faces_to_edges / graph.face_adjacency / graph.is_watertight / grouping on symbolic vertex ids (z3 Int / bit-vectors), comparisons fork; oracle = direct counting written as z3 terms; Trimesh-level queries over small id ranges by solver-driven forks",
            "Vertex ids are only compared, sorted and packed, so they stay symbolic: for one face (any int64 ids) and for two faces (face 0 = a representative of each face shape, face 1 = ANY three integers below 2^20) every equality/order pattern is a path and edges, adjacency with shared edge, watertightness, winding consistency and unique edges equal their counting definitions. "
            "Trimesh-level values (edges*, adjacency, Euler number, degree, neighbours, incident faces, components with both back-ends, body count) are checked on all 4096 two-face arrays over ids < 4 and the tetrahedron family with arbitrary winding / repeated / degenerate / missing faces.",
            TRUSTED + "listing order of pairs/edges not part of the claim; vertex_faces compared as sets and self-loop neighbours of degenerate faces ignored (ambiguous by the statement); angle-defect sum only on two concrete closed manifolds; more than 2 symbolic / 3 enumerated faces not claimed."),
    "C07": ("other", "DESIGN.md#c07", "symbolic execution of Trimesh.update_faces / update_vertices / remove_unreferenced_vertices / merge_vertices / unique_faces / nondegenerate_faces / submesh / split / concatenate with solver-variable masks, index lists, face arrays and twin-vertex offsets; z3 decides corner-position obligations, tags decide alignment per path",
            "Boolean masks are symbolic Bools, integer masks / index lists / face arrays symbolic Ints resolved by solver-driven forking (every feasible value is a path), twin vertices sit at a SYMBOLIC offset from their originals so the code's own round(v*10^digits) decides which merge. After each operation every surviving triangle's nine coordinates are compared with the pre-operation triangle (exactly; within 1e-8 for merging), face order, face/vertex attributes and colours are compared against distinct tags, faces.max() < len(vertices), and concatenate(split(m)) is compared as a triangle multiset.",
            TRUSTED + "meshes <= 4 faces / 7 vertices; twin offsets |d|<=3e-8; NaN/inf removal, texture (PIL) and vertex-normal merging options not claimed."),
    "C10": ("other", "DESIGN.md#c10", "symbolic execution of Scene.bounds_corners/bounds/extents/centroid/area/volume/triangles/dump/to_mesh/copy/scaled/rezero/apply_transform/__add__/subscene with symbolic edge matrices; z3 compares every placed vertex with the dictionary-oracle placement for all parameter values",
            "A real Scene (geometry instanced twice through a nested node, a second geometry, a node without geometry, a geometry without node) is built with symbolic edge matrices from four families (translations, x->s*x+t, catalogue rotations with symbolic translation, mixed) and every scene quantity is compared with the explicit placement W(node).v (bounds as If-min/max terms, triangles per node, dump/to_mesh per instance, area/volume as s^2/s^3-weighted sums). Derived scenes are compared the same way and the source scene with its snapshot.",
            TRUSTED + "two catalogue geometries; scale factors in prime-centred intervals (fix_rigid band excluded); documented shortcut bands of scaled (|k-1|<=2e-5) and rezero (centroid within 1e-3 of origin) excluded; convex hull, cameras, lights, unit strings not claimed."),
    "C17": ("other", "DESIGN.md#c17", "symbolic execution of the copy routes of Trimesh / Primitive / Path2D / PointCloud / Scene / VoxelGrid / ColorVisuals; read-state, copy route, edited side and edit SITE are solver variables (forked), the written value a fresh symbolic real; z3 decides that the other object's values equal their snapshot",
            "For each kind a real object with a symbolic payload is copied by .copy(), copy.copy or copy.deepcopy (chosen by the solver), with or without derived values read before; then one edit is applied at a solver-chosen site (in-place array writes, nested metadata, attributes, visuals, primitive parameters, graph edges, API mutators) on the copy or the original with a symbolic value outside the range of every existing value, and every value of the other object - re-read after the edit - is compared with its snapshot; right after copying both objects must report the same values.",
            TRUSTED + "small catalogue objects; one edit (two in the thorough tier, mesh kind); textures, shapely polygons and cameras not compared."),
    "C18": ("other", "DESIGN.md#c18", "symbolic execution of repair.fix_winding / fix_inversion / fix_normals / fill_holes and remesh.subdivide / subdivide_to_size / subdivide_loop on solids with symbolic coordinates; re-wound / removed / subdivided face subsets are solver variables (forked), the size bound a symbolic real split by the code's own comparisons; z3 decides the numeric obligations",
            "Every subset of re-wound faces (and every starting corner of each face) of a tetrahedron and of two disjoint tetrahedra with symbolic apexes is repaired by the real fix_normals and each face must come back as a cyclic rotation of its outward original, with no vertex moved and positive signed volume per body (z3, all coordinates); every single missing triangle / cube side is closed by fill_holes with the outward winding and the solid's volume; subdivision keeps the original vertices as a prefix, tiles every face (vector areas add up, each child a parallel quarter), keeps the volume and, for all faces, watertightness and Euler number; subdivide_to_size leaves no edge above ANY bound in the stated interval.",
            TRUSTED + "catalogue solids (genus 0); bounds of subdivide_to_size limited to <= 2 rounds in the quick tier; subdivide_loop: topology only; stitch and higher genus not claimed."),
    "C15": ("other", "DESIGN.md#c15", "symbolic execution of creation.box / revolve / cylinder / cone / annulus / capsule / uv_sphere / torus and primitives.Box / Cylinder / Sphere with symbolic radii, heights, extents and placement offsets; section counts forked by the solver; z3 decides volume / bounds / inertia identities and positivity for all parameter values",
            "For every section count in the stated range the angle grid is constant, so vertices are linear in the real parameters: z3 proves that the signed volume (divergence formula over the real mesh) is positive and equals the inscribed prism / pyramid value computed on the same grid, that mesh.volume, bounds, box area and box inertia are the analytic ones, under no placement, translation, catalogue rotation and mirrored placements; topology (watertight, consistent winding, Euler number) is exact per count; a primitive whose parameters are edited (before or after its mesh was read) has exactly the mesh of a freshly built primitive.",
            TRUSTED + "parameters in [0.5,4]; counts 3..6 (quick) / 3..12 (thorough); sphere-like shapes on their smallest grids; scalar primitive parameters from a catalogue (builtin float()); shapely / earcut based constructors and icosphere volume not claimed."),
    "C14": ("other", "DESIGN.md#c14", "symbolic execution of path.traversal.closed_paths / discretize_path / Line entities / Path.paths / Path.discrete on curves with symbolic coordinates; cut positions, entity directions and list order are solver variables (forked); z3 decides shoelace area / perimeter / vertex-set identities; shapely-backed values compared per configuration on catalogue coordinates",
            "Every cut pattern (up to 4 + 2 entities), every direction assignment and every rotation / reversal of the entity list of a rectangle with symbolic size and offset, a nested triangle and a disjoint quadrilateral is run through the real traversal: three closed paths must come back, each entity chain a rotation / reversal of its input loop, and z3 proves for all coordinates that each recovered loop is closed and has exactly the input polygon's shoelace area, perimeter and vertex set. polygons_closed / polygons_full / root / area / length (shapely) are compared with the exact values for every configuration on catalogue coordinates, under 9 similarity transforms with derived values read before or after.",
            TRUSTED + "line entities only (arc_center: nested square roots, z3 unknown); list orders: rotations and reversal, not all permutations; shapely values on catalogue coordinates only; DXF / SVG / dict round trips not claimed (text codecs, cf. C08)."),
    "C20": ("other", "DESIGN.md#c20", "symbolic execution of exchange.stl.load_stl_binary and the header / chunk loop of exchange.gltf.load_glb against a stub environment: stream of symbolic length, np.frombuffer returning symbolic 32-bit words (z3 Ints with modulo-2^32 uint32 arithmetic), allocation requests recorded as terms; z3 decides the allocation bound, loop progress and exit kinds",
            "The real loader code runs on a stream stub whose read/tell/seek work on a symbolic length L, with every header word an arbitrary 32-bit value: for every path z3 decides that each allocation the code requests (np.arange, frombuffer, read) is at most 64*L + 4096 bytes, that the GLB chunk loop consumes a chunk header per iteration (iterations <= L/8 + 1, unwinding bound checked) and that each exit is a return or an Exception. A counterexample is packed into real bytes and replayed on the unmodified loader with real numpy.",
            TRUSTED + "L <= 234 (STL) / 36 (GLB quick; 52 thorough) bytes, payload content irrelevant to the skeleton; stubs: stream semantics, numpy's frombuffer size contract, json.loads of the GLB JSON chunk; text parsers, zip/json/xml payloads, handle closing in load.load, interpreter crashes, wall-clock and RSS not claimed."),
}

NOT_APPLICABLE = {
    "C08": "export/load round trips bottom out in C-level codecs (tobytes/frombuffer on structured dtypes, %-formatting, str.split/float, json, base64, zipfile, lxml); symbolic values are realised at each of them and modelling them would make the round trip true by construction of the model (DESIGN.md C08)",
    "C16": "containment comes from qhull (scipy.spatial.ConvexHull/Voronoi), scipy.optimize and LAPACK eigh/lstsq, none of which can be executed on symbolic input; stubbing them by contract would assume the property (DESIGN.md C16)",
}

PENDING = {}  # filled below: properties whose harness is not built yet are listed under not_applicable with that reason


def main():
    props = [json.loads(l) for l in open(os.path.join(HERE, "properties.jsonl"))]
    checks = []
    na = []
    for p in props:
        pid = p["id"]
        if pid in CLAIMED and os.path.exists(os.path.join(HERE, "harness")) and any(f.startswith(pid + "_") for f in os.listdir(os.path.join(HERE, "harness"))):
            level, ref, tech, text, note, *rest = CLAIMED[pid]
            checks.append({
                "property_id": pid,
                "quick_cmd": "./check %s --tier quick" % pid,
                "thorough_cmd": "./check %s --tier thorough" % pid,
                "evidence_file": "evidence/%s.json" % pid,
                "replay_cmd_template": "./check %s --replay {path}" % pid,
                "engine": "symx",
                "level_claimed": {"category": level, "text": text, "design_ref": ref},
                "level_note": note,
                "technique": tech,
            })
        elif pid in NOT_APPLICABLE:
            na.append({"property_id": pid, "reason": NOT_APPLICABLE[pid]})
        else:
            na.append({"property_id": pid, "reason": "harness not built yet in this revision (planned, see DESIGN.md); not claimed until its check exists"})
    baseline = json.load(open("/root/.vp/BASELINE.json"))["cmd"]
    man = {
        "version": 1,
        "setup_cmd": "./setup.sh",
        "hooks": {
            "guard": "TRIMESH_VERIF",
            "enable": "no source hooks are needed: checks import trimesh from /repo's working tree and plant their numpy proxy in the module globals of the imported modules at run time (symx/nparr.py:patched); TRIMESH_VERIF=1 is exported by the checks but read by no source file",
            "baseline_off_cmd": baseline,
            "source_commits": SOURCE_COMMITS,
            "add_only": True,
        },
        "engines": [{"name": "symx", "path": "symx/", "serves_properties": [c["property_id"] for c in checks],
                     "kind_free_text": "path-forking symbolic executor that runs the real trimesh code on numpy object arrays of z3 terms; z3 decides every obligation per path; models are replayed on the float code"}],
        "checks": checks,
        "not_applicable": na,
        "notes": "exit 0 = every obligation explored was discharged or inconclusive (inconclusive ones are printed and counted in the evidence, never counted as discharged); exit 1 only with a VIOLATION line whose replay file reproduces on the unpatched float code. known_findings.json lists genuine defects recorded rather than repaired and fix: commits.",
    }
    with open(os.path.join(HERE, "MANIFEST.json"), "w") as f:
        json.dump(man, f, indent=1)
    print("claimed:", [c["property_id"] for c in checks])
    print("not applicable / pending:", [n["property_id"] for n in na])


SOURCE_COMMITS = []  # no hook commits; fix: commits in /repo are listed in known_findings.json

if __name__ == "__main__":
    main()
