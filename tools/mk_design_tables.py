import json, glob, os, re
p='/verif/DESIGN.md'
s=open(p).read()
cut = s.find("\n## 9. As built")
if cut > 0:
    s = s[:cut]
s=s.replace('''Everything below was sized with throw-away probes against the real modules (numbers quoted as
"probe:" are measured in this sandbox, single core, z3 5.1.0).  No framework code exists yet.''','''Sections 0-8 are the design round (sized with throw-away probes against the real modules; numbers quoted
as "probe:" are measured in this sandbox, single core, z3 5.1.0).  **Sections 9-12 describe what was
actually built** - bounds as implemented, sub-claims dropped, false alarms corrected, the genuine
defects the checks produced (NFIX repaired by `fix:` commits, the rest recorded as known findings) and
which checks catch which seeded changes.  Where section 4 and section 9 differ, section 9 is what the code does.''')
s=s.replace('''`not_applicable` in MANIFEST.json: **C08, C16**.  All other properties are claimed with the bounds
above;''','''`not_applicable` in MANIFEST.json: **C08, C16**.  All other 18 properties are claimed and have a working check (bounds as built: section 9);''')
s=s.replace("## 7. Genuine defects anticipated (from reading + concrete pre-probes; each must first be produced by its check)","## 7. Genuine defects anticipated in the design round (outcome: section 11)")

d=json.load(open('/verif/known_findings.json'))
fixed=[e for e in d['entries'] if e['kind']=='fixed']
finds=[e for e in d['entries'] if e['kind']!='fixed']
def esc(x): return x.replace("|","\\|")
regress = sorted(os.path.basename(x) for x in glob.glob('/verif/regress/*.diff'))

out=[]
out.append('''
## 9. As built

### 9.1 Engine (`/verif/symx`)
* `core.py` - `Sym` (z3 Int/Real terms with exact numerals: every number living in a float-typed symbolic array is a
  rational numeral, so no rounding enters a symbolic run), `SymBool`, `SymBV` (64-bit machine words), the path-forking
  `Engine` (DFS by re-execution with a decision prefix; feasibility by cone-of-influence slices; per-path decision memo so a
  condition evaluated twice cannot take two values; `concretize` = solver-driven enumeration of an Int/Bool value with a
  blocking clause per value; `sqrt` / `cbrt` as fresh reals with their defining constraint).
* `nparr.py` - the numpy proxy planted as the module global `np` (and `math`, `float`, `int`, `round`) of every `trimesh.*`
  module while a unit runs, plus `SymArray` (ndarray subclass: `__array_ufunc__` / `__array_function__`, fake dtype so
  that `arr.dtype.kind`, `astype`, `view` behave as for the concrete dtype).  The methods are also planted on
  `caching.TrackedArray`.  Nothing in `/repo` is modified: MANIFEST.hooks is empty (guard name reserved: `TRIMESH_VERIF`).
* `angle.py` - angles as points of the unit circle (`arctan2/arcsin/arccos/sin/cos`, half-angle form).
* `harness.py` - `Ctx` (declares inputs; the same unit body runs symbolically, pinned-exact and on plain floats), obligations,
  translator validation (a sampled concrete input is run on the float code and on the patched code with the inputs pinned;
  every observed value must agree), vacuity witness per unit, counterexample search with margins, replay on the
  unpatched float code before any VIOLATION line, known-finding matching by `fnmatch` on `unit.key:obligation:signature`.
* `run.py` - driver: one process per unit (16 in parallel), hard timeout per unit, evidence writer.
* Stubs (each is part of the claim and listed in the evidence of the units that use it): `np.linalg.eig` by its
  contract (C19), `random.random` inside `flips_winding` returning small rationals (C04, C01, C10, C15), r-tree / kd-tree
  by their contracts (C12), the stream / `frombuffer` / `json.loads` environment of C20.
* Two unit options restrict the engine on purpose: `no_proxy` (body runs on plain numpy; only the combinatorial inputs
  are solver variables - used where the code bottoms out in PIL, shapely or generators whose exact-arithmetic run does not
  finish) and `concrete_only`.

### 9.2 Per property: what the registered check decides (quick tier; thorough widens the ranges as stated)
| id | units (quick) | symbolic inputs | decided obligations / bounds as built | quick wall |
|----|----|----|----|----|
| C01 | 34 | matrix parameters (translation, diag scale with mirrors, shear, scaled catalogue rotation), edited coordinate, density | inductive step: real mesh with a chosen set of values read, ONE mutator (apply_transform, in-place edits, reassignment incl. an already-hashed foreign array, density, invert, update_faces/vertices, remove_unreferenced, copy(include_cache), edit+copy), then 19 derived values equal a freshly built mesh's for all parameter values; meshes: catalogue tetrahedron / open strip | 36 s |
| C02 | 6 | the program (op ids, object ids) | BMC over the dirty-flag transition system extracted from the real `TrackedArray` (85 write routes x aliasing relations x memo timing), every abstract trace validated against the implementation; 16 route classes are known findings | 10 s |
| C03 | 10 | 9-12 coordinates, density, centre override, frame | flux lemma per triangle (=> any closed mesh), tetrahedron, pillow; inertia in a rotated frame with symbolic density | 83 s |
| C04 | 40 | points, matrix families | meshes with overrides, point clouds, voxel grids, scene node, primitives: every vertex to M.v, winding flips iff det < 0, volume x |det| | 206 s |
| C05 | 10 | vertex ids (any int64 for one face; < 2^20 for the second face) | edges, adjacency + shared edge, watertightness, winding, unique edges = counting definitions; Trimesh-level values on all 4096 two-face arrays over ids < 4 and the tetrahedron family | 53 s |
| C06 | 45 | row values as 64-bit words, options | hashable_rows / unique_rows / group_rows / blocks / boolean_rows ... element-wise; <= 4 columns, <= 5 rows, blocks <= 7 elements | 44 s |
| C07 | 20 | masks (Bool), index lists / face arrays (Int, forked), twin-vertex offsets (Real) | update_faces / update_vertices / remove_unreferenced / merge_vertices (positions, uv, normals, digits) / unique+nondegenerate / submesh / split / concatenate (incl. textured) / unmerge: corners, order, tags | 57 s |
| C09 | 112 | history (op ids, node ids), edge matrices x -> s*x+t | every get() along every history of <= 3 mutations over 4 frames equals the dictionary forest | 94 s |
| C10 | 27 | edge matrices (4 families), scale factors | bounds / extents / centroid / area / volume / triangles / dump / to_mesh, copy, scaled (uniform, per axis), rezero, apply_transform, +, subscene, chain with identity edge | 95 s |
| C11 | 49 | triangle coordinates, plane offset, origin, height | section / slice_plane sub-spaces (axis planes, catalogue oblique planes), on-vertex / on-edge sign patterns as paths; 3D part of mesh_multiplane with non-unit normals (projection stubbed) | 15 s |
| C12 | 31 | ray origin / query point (triangle catalogue) and vice versa | ray-triangle hits = exhaustive definition, incl. a two-ray batch in one call (per-ray answers independent of the batch); closest point; nearby_faces candidates superset | 32 s |
| C13 | 75 | run counts (any magnitude), dense values, indices | rle/brle codecs, splits at dtype maximum, encodings interchangeable under 7 single views (flips, swaps, cyclic transpose, flat, reshape) and 5 stacked views (transpose-transpose, transpose-flip-transpose, flip-transpose-flip, transpose-transpose with a 2-cycle and a 3-cycle, transpose-reshape-transpose); 6 known findings (mask / stripped / all-empty) | 22 s |
| C14 | 2 | rectangle size / offset (Real); cut positions, directions, list order (forked) | traversal rebuilds every loop (area, perimeter, vertex set exact); shapely values per configuration on catalogue coordinates under 9 similarity transforms | 103 s |
| C15 | 19 | radii, heights, extents, offsets (Real); section count (forked 3..6) | box / cylinder / cone / annulus: topology, signed volume > 0 and = inscribed formula, bounds, box area + inertia, under none / translation / rotation / mirror placements; sphere-like shapes on catalogue grids; primitive edits | 77 s |
| C17 | 12 | payload coordinate, written value (Real); read-state, copy route, side, edit site (forked) | other object unchanged after an edit at any of the enumerated sites, for Trimesh (3 variants), Box / Sphere / Cylinder, Path2D, PointCloud, Scene, VoxelGrid, ColorVisuals | 97 s |
| C18 | 12 | apex coordinates, cube size, edge bound (Real); flipped / removed / subdivided subsets (forked) | fix_normals (1 and 2 bodies, all subsets), fill_holes (triangle, quad), subdivide (all / subsets / twice), subdivide_to_size (all bounds in [2.2, 9]), subdivide_loop topology | 96 s |
| C19 | 119 | quaternion, unit-circle angles, TRS factors | 24 Euler conventions x branches, quaternion / matrix / axis-angle conversions, rotation_from_matrix with eig stub | 90 s |
| C20 | 2 | file length, every header word (STL) / every byte of the file (GLB) | STL binary and GLB chunk loop: allocation <= 64 L + 4096, loop progress, no chunk-header position read twice (lasso), exit kinds, unwinding assertion | 9 s |

`vp check` on the whole set: about 18 minutes.  Thorough tiers widen counts / ranges as written in each unit's `bounds`
string; every thorough command was run end-to-end once on this machine (two at a time, so the figures are pessimistic):
C20 6 s, C02 26 s, C11 32 s, C13 49 s, C03 83 s, C18 169 s, C19 175 s, C07 219 s, C01 241 s, C14 286 s, C10 565 s, C06 827 s,
C05 953 s, C15 1308 s, C17 1502 s, C04 1509 s, C12 1548 s, C09 1593 s.  Units that ran into the 1500 s per-unit hard timeout in
that run (C04 compose scale-scale / sim1-scale, C14 full cut product, C15 ten counts under rotated placements, the full
two-step product of C09) were cut down until the tier fits in < 27 minutes; the first end-to-end thorough run also
produced two further genuine defects (C13: cyclic transposes, `BinaryRunLengthEncoding.stripped`) and one false alarm (C01 near-identity band, section 10).

### 9.3 Sub-claims dropped from the design (decided honestly as outside reach, not switched to another technique)
* C01: `vertex_normals`, ray / nearest structures, kd-tree, convex hull, principal axes are not compared (trig weights,
  compiled back-ends).  Per-corner `face_angles` after a mirror: thorough tier only, offset a catalogue constant.
  `edit+copy` only on the strip (two symbolic edits on the tetrahedron do not finish).
* C04: draw-independence of `flips_winding`, scene `apply_transform` beyond one node, 2D paths.
* C05: listing order of pairs; angle-defect sum only on two concrete closed manifolds; > 2 symbolic faces.
* C07: NaN / inf removal (no NaN in the Real sort); vertex-normal *averaging* options.  Textured concatenation runs with
  `no_proxy` (PIL): only the material / shape assignment is symbolic.
* C10: convex hull, cameras, lights, unit strings; the documented shortcut bands of `scaled` (|k-1| <= 2e-5 is `np.allclose`
  to 1) and `rezero` are excluded by assumption and stated.
* C11: symbolic tetrahedron / fully oblique symbolic triangle (nlsat stalls): replaced by catalogue sub-space unions.
* C12: fully symbolic rays (catalogue directions in quick); whole-mesh proximity units thorough only.
* C14: arcs (`arc_center`'s Heron formula gives nested square roots in branch conditions: z3 `unknown`), all permutations of
  the entity list (rotations + reversal only), DXF / SVG / dict round trips; shapely-backed values only on catalogue coordinates.
* C15: `extrude_polygon / sweep_polygon / triangulate_polygon`, partial revolutions with caps (shapely + earcut); icosphere
  volume; uv_sphere / capsule / torus with symbolic radii (their exact-arithmetic run does not finish: catalogue values,
  `no_proxy`); scalar primitive parameters are catalogue values because `PrimitiveAttributes` converts them with builtin `float()`.
* C17: Capsule (mesh creation does not finish under exact arithmetic), textures, cameras; two successive edits: thorough, mesh kind.
* C18: higher genus, `stitch`, `broken_faces`; `subdivide_loop` topology only.
* C19: decompose with symbolic angles.
* C20: PLY / binvox headers and the handle-closing obligation of `load.load` from the design were not built (time); text
  parsers, zip / json / xml payloads, RSS and wall-clock are outside the technique.

## 10. False alarms found while building, and what was corrected (never listed as findings)
* C03: the "cone lemma" oracle was wrong for non-star-shaped pieces -> replaced by the flux lemma with a degree-3 quadrature;
  the centre-override inertia oracle ignored the parallel-axis term.
* C05: `vertex_faces` multiplicity, self-loop neighbours of degenerate faces and `body_count` counting isolated vertices are
  ambiguous by the statement -> oracle compares sets / follows the documented counting.
* C06: a lane-decode obligation demanded more than the property -> removed.
* C11: "on edge" OR-obligation over-demanded -> exact-intersection set oracle.
* C12: nearest-point ties: squared distances within `tol.merge` -> margin 2e-8.
* C04 / C01 / C10 / C15: `apply_transform`'s identity shortcut (max|M - I| < 1e-8) and `transform_points`' own band are
  documented tolerances -> parameter ranges keep away from them and say so.
* C01 (thorough tier, first end-to-end run): near-identity matrices with |M3 - I| <= 1e-6 are treated as "no rotation" by
  `apply_transform` (`has_rotation`, atol=1e-6) and keep cached normals, which then differ from fresh ones by ~3e-7; my oracle
  demanded 1e-8 -> the near-identity families were removed from C01 (they stay in C04 for the vertices) and the band is stated.
* C07: merge tolerance is `10^-digits_vertex`, not always 1e-8.  C13: "lengths add up" only for non-empty data.
* C14 / C15 (`no_proxy` units): float results must be compared with a relative tolerance, not exactly.
* C17: a detached `ColorVisuals` can only report colours of its own kind; C18: wrong expected face count in my own oracle.
* Engine defects that produced spurious counterexamples (all caught because they did not replay): `np.eye` typed as int under the
  proxy (truncated transforms), deep copies of object arrays sharing their elements, in-place `*=` of a float array by a
  symbolic operand, Fractions rounded by `astype(float)`, `int ** -1`.  A non-reproducing model is reported as inconclusive,
  never as a violation.

Misses of the machinery (the other direction), all exposed by seeded changes and corrected in general form: the C10 / C17
scenes never really *instanced* a geometry (`Scene.add_geometry` registers a renamed copy; instancing needs
`graph.update(geometry=name)`); the numpy proxy's `asanyarray(x, dtype)` always copied, hiding aliasing that numpy's
no-copy semantics create; in the C20 stub environment an exception raised because a stub lacked an operation was counted
as a clean loader failure, `int(<symbolic word>)` silently became 0, and header words were fresh per read instead of a
function of the file position (now: symbolic bytes selected by position); a non-terminating loop only showed as a hung unit
(now: unwinding assertion on reads + "no chunk-header position read twice").  Two harness-level hangs were removed: z3's python
pretty-printer on large terms in evidence samples, and the reachability-witness loop retrying every path after a timeout.

## 11. Genuine defects
Each was first produced by its check (solver model or validation sample), replayed on the unmodified float code, then
repaired by one minimal `fix:` commit in `/repo` (the unedited suite passes: 650 passed, `test_ray::test_on_edge` fails
before and after).  The reverse patch of every fix is kept under `/verif/regress/` and each was confirmed to raise
VIOLATION again (`tools/with_patch.sh regress/<x>.diff ./check <id>`).

| property | commit | what failed |
|---|---|---|''')
for e in fixed:
    out.append("| %s | `%s` | %s |" % (e['property'], e['commit'], esc(e['what'].split(e['commit'],1)[1].strip())))
out.append('''
Known findings (genuine, reproduced, NOT repaired - the repair is not small or collides with an existing test); the
check prints one `KNOWN-FINDING:` line per entry and exits 0, any violation outside these keys is still reported:

| property | key | what |
|---|---|---|''')
seen=set()
for e in finds:
    w=esc(e['what'])
    if e['property']=='C02' and 'bypasses every overridden' in w:
        if 'bypass' in seen: continue
        seen.add('bypass')
        keys=[x['key'].split('route=')[1].split('@')[0] for x in finds if x['property']=='C02' and 'bypasses every overridden' in x['what']]
        out.append("| C02 | `C02/route=<op>@*:stale=target` for op in %s | write routes that bypass every overridden TrackedArray method: hash(a) stays at the memoised value although a's bytes changed (numpy offers no hook short of re-hashing on every read) |" % ", ".join("`%s`"%k for k in keys))
        continue
    out.append("| %s | `%s` | %s |" % (e['property'], e['key'], w[:420]))
out.append('''
Observed by sub-agents while reading, outside the registered obligations and left alone: `Capsule._create_mesh` ignores
`primitive.sections`; `DataStore.__hash__` uses `hash(float)` (hash(-1.0) == hash(-2.0)); `revolve` drops cap triangles below
`tol.merge`; `Path2D(**dict_to_path(path.export("dict")))` raises for Line entities (dict round trip: not claimed).

## 12. Seeded changes: which checks catch which
NSEED changes (all but `C20-h1` written by independent sub-agents, each of which saw only the property text and a scratch worktree of `/repo`), kept
under `/verif/seeded/<id>/` (patch.diff, demo.py, notes.txt, meta.json).  Every one compiles, passes the relevant existing
tests and flips its demo.  `tools/try_seeded.sh seeded/<id>` re-checks all three facts.  "missed at first" = the check had
to be strengthened; the strengthening is general (a new unit or edit site), not a special case for the patch.

| seeded | what has to happen for it to show | detection |
|---|---|---|''')
for m in sorted(glob.glob('/verif/seeded/*/meta.json')):
    j=json.load(open(m))
    out.append("| %s | %s | %s |" % (os.path.basename(os.path.dirname(m)), esc(j['needs_to_manifest']), esc(j['detection'])))
out.append('''
Still missed in the quick tier: **C01-m1** (caught by the thorough tier only).  Two third-round changes were missed at first
and needed new units: **C11-m3** lives in `mesh_multiplane`, which was not claimed at all; its 3D part (dot products cached
per vertex, offset by height, `mesh_plane` with cached dots) is now run on a symbolic triangle with a NON-unit normal, symbolic
origin and height, with `plane_transform`, `linalg.inv` and `transform_points` stubbed (the 2D projection stays unclaimed; the
stubs are listed in the unit's bounds).  **C12-m3** (first-hit selection with a `distance` array not filtered together with the
hits) was missed because every C12 ray unit cast a single symbolic ray; it is caught by the new `ray-batch-two-triangles*` units
(two rays in one call, the first starting at a symbolic fraction between the two crossings so that an oblique triangle just
behind its origin is still a candidate).
Third round (C05-m3, C06-m3, C13-m3, C19-m3): three caught as they were, C13-m3 (composition order of two lazy transposes)
missed at first and caught after the encoding unit got stacked ('chain') views - which also drove the already known mask()
defects through a second view (one new known-finding key).  Everything else is caught by the quick
command of its property.  The reverse patches of the %d fixes (`/verif/regress/`) are caught by the quick tier as well.
`seeded/VERIFIED.txt` is the log of the last re-verification on the final tree (all 26 reverse patches and 21 of the older
seeded changes re-run; the newer ones were verified when they were added).
''' % len(regress))
import re as _re
s=_re.sub(r'\((NFIX|\d+) repaired by', '(%d repaired by' % len(fixed), s)
out=[x.replace('NSEED', str(len(glob.glob('/verif/seeded/*/meta.json')))) for x in out]
open(p,'w').write(s.rstrip("\n")+"\n"+"\n".join(out)+"\n")
print(len(open(p).read().splitlines()))
