#!/bin/sh
# tools/with_patch.sh <patch.diff> <command...> : apply a patch to /repo, run the command, always restore /repo
P="$(readlink -f "$1")"; shift
git -C /repo apply "$P" || { echo "patch does not apply"; exit 3; }
"$@"; rc=$?
git -C /repo checkout -- . 
exit $rc
