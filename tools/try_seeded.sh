#!/bin/sh
# tools/try_seeded.sh <seeded dir> [tier]: confirm the demo flips and report whether the property's check raises a VIOLATION
D="$(readlink -f "$1")"; T="${2:-quick}"
ID=$(basename "$D" | cut -d- -f1)
cd /verif
git -C /repo apply --check "$D/patch.diff" || { echo "$D: patch does not apply"; exit 3; }
P0=$(cd /repo && PYTHONPATH=/repo /venv/bin/python "$D/demo.py" >/dev/null 2>&1; echo $?)
git -C /repo apply "$D/patch.diff"
P1=$(cd /repo && PYTHONPATH=/repo /venv/bin/python "$D/demo.py" >/dev/null 2>&1; echo $?)
OUT=$(timeout 3000 ./check $ID --tier $T --no-evidence 2>&1); RC=$?
git -C /repo checkout -- .
NV=$(echo "$OUT" | grep -c '^VIOLATION')
echo "$(basename $D): demo clean=$P0 patched=$P1 | check($T) exit=$RC violations=$NV"
echo "$OUT" | grep -A1 '^VIOLATION' | grep 'unit=' | sed 's/ key=.*//' | cut -c1-200 | sort | uniq -c | head -4
