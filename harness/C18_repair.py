"""C18 -- repair and subdivision keep the surface and restore validity."""
import numpy as np

from symx import lib, nparr
from symx.harness import Unit as _Unit


def Unit(*a, **k):
    k.setdefault("group", False)
    k.setdefault("feas_ms", 800)
    k.setdefault("ob_ms", 20000)
    return _Unit(*a, **k)


META = {
    "level": "other",
    "explanation": "The real repair / remesh functions run on catalogue solids whose coordinates are partly symbolic. WHICH faces were re-wound (a Bool per face: every subset), which face or quad was removed, "
    "which face subset is subdivided are solver variables resolved by forking; the size bound of subdivide_to_size is a symbolic real that the code's own `edge > max_edge` comparisons split into cases. "
    "z3 decides the numeric obligations (vertices untouched, vector area per original face, volume, signed volume > 0, every edge <= bound) for all coordinate values; topology (cyclic rotation of the outward "
    "face, watertightness, Euler number) is exact per path.",
    "assumptions": [
        "solids: tetrahedron, two disjoint tetrahedra (two bodies), unit cube scaled by a symbolic factor; one vertex (fix_normals, subdivide) symbolic inside a box that keeps the solid non-degenerate",
        "fix_normals(multibody=True) for several bodies (body-by-body as the property states)",
        "subdivide_loop: topology and vertex-count claims only (it moves vertices by design)",
        "higher genus, stitch(), broken_faces colouring not claimed",
    ],
}

TET_V = [(0, 0, 0), (4, 0, 1), (1, 5, 0), (2, 1, 6)]
TET_F = [[0, 2, 1], [0, 1, 3], [1, 2, 3], [0, 3, 2]]  # outward


def _as(ctx, a):
    a = np.array(a, dtype=object)
    return nparr.set_sd(nparr.wrap(a), np.float64) if ctx.sym else np.array(a.tolist(), dtype=float)


def _obj(ctx, a):
    return np.asarray(nparr.base(a) if ctx.sym and isinstance(a, np.ndarray) else a, dtype=object if ctx.sym else float)


def _tet_verts(ctx, shift=0, tag=""):
    V = [list(v) for v in TET_V]
    if ctx.params.get("apex_dims", 3) == 1:
        V[3] = [2, 1, ctx.real("z3" + tag, 4, 8)]
    else:
        V[3] = [ctx.real("x3" + tag, 1, 3), ctx.real("y3" + tag, 0.5, 2), ctx.real("z3" + tag, 4, 8)]
    return [[v[0] + shift, v[1], v[2]] for v in V]


def _rot_of(f, g):
    f, g = [int(x) for x in f], [int(x) for x in g]
    return any(f == g[i:] + g[:i] for i in range(3))


def _vol(ctx, V, F):
    """signed volume by the divergence formula (oracle)"""
    V = _obj(ctx, V)
    tot = 0
    for f in F:
        a, b, c = V[int(f[0])], V[int(f[1])], V[int(f[2])]
        tot = tot + lib.dot3(a, lib.cross3(b, c))
    return tot / 6


def _vec_area(ctx, V, f):
    V = _obj(ctx, V)
    a, b, c = V[int(f[0])], V[int(f[1])], V[int(f[2])]
    return [x / 2 for x in lib.cross3([b[i] - a[i] for i in range(3)], [c[i] - a[i] for i in range(3)])]


def u_fix_normals(ctx):
    import trimesh

    bodies = ctx.params["bodies"]
    V, F0 = [], []
    for b in range(bodies):
        V += _tet_verts(ctx, shift=20 * b, tag=str(b))
        F0 += [[i + 4 * b for i in f] for f in TET_F]
    flips = [ctx.choose_bool("flip%d" % i) for i in range(len(F0))]
    rot = [ctx.choice("rot%d" % i, 3) if i in ctx.params.get("rotate", ()) else 0 for i in range(len(F0))]
    F = []
    for f, fl, r in zip(F0, flips, rot):
        g = f[::-1] if fl else list(f)
        F.append(g[r:] + g[:r])
    m = trimesh.Trimesh(vertices=_as(ctx, V), faces=np.array(F), process=False)
    if ctx.params.get("read_first"):
        m.face_normals
    trimesh.repair.fix_normals(m, multibody=ctx.params.get("multibody", bodies > 1))
    ctx.eq("no vertex moved", m.vertices, _obj(ctx, V))
    fa = np.asarray(m.faces)
    ctx.concrete_equal("face count", len(fa), len(F0))
    ok = all(_rot_of(fa[i], F0[i]) for i in range(min(len(fa), len(F0))))
    ctx.concrete_equal("every face is its original triangle wound outward (flipped subset %s)" % "".join("1" if x else "0" for x in flips), ok, True)
    ctx.concrete_equal("winding consistent / watertight", (bool(m.is_winding_consistent), bool(m.is_watertight)), (True, True))
    for b in range(bodies):
        ctx.true("signed volume of body %d is positive" % b, _vol(ctx, m.vertices, fa[4 * b:4 * b + 4]) > 0)
    ctx.true("mesh.volume positive", m.volume > 0)
    if ctx.params.get("read_first"):
        fresh = trimesh.Trimesh(vertices=_as(ctx, _obj(ctx, m.vertices).copy()), faces=fa.copy(), process=False)
        ctx.eq("face normals read before the repair are those of the repaired faces", m.face_normals, fresh.face_normals)


def _cube(ctx):
    import trimesh

    box = trimesh.creation.box()  # concrete unit cube, built on plain numpy before the symbolic scale
    s = ctx.real("s", 1, 3)
    V = [[(float(x) + 0.5) * 1 for x in v] for v in np.asarray(box.vertices)]
    V = [[int(round(x)) * s for x in v] for v in V]
    return V, np.asarray(box.faces).tolist(), s


def u_fill_holes(ctx):
    import trimesh

    kind = ctx.params["solid"]
    if kind == "cube":
        V, F0, s = _cube(ctx)
        vol = s * s * s
    else:
        V, F0 = _tet_verts(ctx), [list(f) for f in TET_F]
        vol = _vol(ctx, V, F0)
    F0a = np.array(F0)
    if ctx.params["hole"] == "triangle":
        k = ctx.choice("removed", len(F0))
        removed = [k]
    else:
        # two triangles of one cube side (they share the diagonal and a normal)
        n = np.cross(np.array(V_int(F0a))[F0a[:, 1]] - np.array(V_int(F0a))[F0a[:, 0]], np.array(V_int(F0a))[F0a[:, 2]] - np.array(V_int(F0a))[F0a[:, 0]])
        sides = {}
        for i, x in enumerate(n):
            sides.setdefault(tuple(int(y) for y in np.sign(x)), []).append(i)
        pairs = sorted(v for v in sides.values() if len(v) == 2)
        removed = pairs[ctx.choice("side", len(pairs))]
    keep = [i for i in range(len(F0)) if i not in removed]
    m = trimesh.Trimesh(vertices=_as(ctx, V), faces=F0a[keep], process=False)
    ctx.concrete_equal("the damaged mesh is not watertight", bool(m.is_watertight), False)
    r = trimesh.repair.fill_holes(m)
    ctx.concrete_equal("fill_holes reports success; result watertight and consistently wound", (bool(r), bool(m.is_watertight), bool(m.is_winding_consistent)), (True, True, True))
    ctx.concrete_equal("face count restored", len(m.faces), len(F0))
    ctx.eq("no vertex moved / added", m.vertices, _obj(ctx, V))
    fa = np.asarray(m.faces)
    ctx.concrete_equal("kept faces untouched and first", fa[: len(keep)].tolist(), F0a[keep].tolist())
    ctx.eq("volume of the closed solid", _vol(ctx, m.vertices, fa), vol)
    ctx.eq("mesh.volume", m.volume, vol)
    if len(removed) == 1:
        ctx.concrete_equal("the new face is the removed triangle, wound outward", _rot_of(fa[-1], F0[removed[0]]), True)


_CUBE_INT = None


def V_int(F0a):
    """integer corner coordinates of the unit cube in creation.box order (only to find coplanar face pairs)"""
    global _CUBE_INT
    if _CUBE_INT is None:
        import trimesh

        _CUBE_INT = np.round(np.asarray(trimesh.creation.box().vertices) + 0.5).astype(int)
    return _CUBE_INT


def u_subdivide(ctx):
    import trimesh

    V, F0 = _tet_verts(ctx), np.array(TET_F)
    n = len(V)
    sub = None
    if ctx.params.get("subset"):
        mask = [ctx.choose_bool("sub%d" % i) for i in range(4)]
        if not any(mask):
            ctx.assume(False)
        sub = [i for i in range(4) if mask[i]]
    route = ctx.params.get("route", "function")
    if route == "function":
        nv, nf, idx = trimesh.remesh.subdivide(_as(ctx, V), F0, face_index=None if sub is None else np.array(sub), return_index=True)
    else:
        m = trimesh.Trimesh(vertices=_as(ctx, V), faces=F0, process=False)
        for _ in range(ctx.params.get("iterations", 1)):
            m = m.subdivide(face_index=None if sub is None else np.array(sub))
        nv, nf, idx = m.vertices, np.asarray(m.faces), None
    nvo = _obj(ctx, nv)
    ctx.eq("original vertices are a prefix of the new ones", nvo[:n], _obj(ctx, V))
    nf = np.asarray(nf)
    it = ctx.params.get("iterations", 1)
    k = 4 if sub is None else len(sub)
    if it == 1:
        ctx.concrete_equal("face count", len(nf), 4 - k + 4 * k)
    ctx.concrete_equal("faces index existing vertices", int(nf.max()) < len(nvo), True)
    if idx is not None:
        for orig, children in idx.items():
            tot = [0, 0, 0]
            for c in children:
                va = _vec_area(ctx, nvo, nf[int(c)])
                tot = [tot[i] + va[i] for i in range(3)]
            ctx.eq("children of face %d tile it: vector areas add up" % int(orig), tot, _vec_area(ctx, V, F0[int(orig)]))
            for c in children:
                # every child is parallel to its parent and a quarter of it
                va, pa = _vec_area(ctx, nvo, nf[int(c)]), _vec_area(ctx, V, F0[int(orig)])
                ctx.eq("child %d of face %d is a quarter of its parent (same plane, same orientation)" % (int(c), int(orig)), [4 * x for x in va], pa)
    ctx.eq("volume preserved", _vol(ctx, nvo, nf), _vol(ctx, V, F0))
    if sub is None:
        mm = trimesh.Trimesh(vertices=_as(ctx, nvo), faces=nf, process=False)
        ctx.concrete_equal("watertight, consistently wound, Euler number 2", (bool(mm.is_watertight), bool(mm.is_winding_consistent), int(mm.euler_number)), (True, True, 2))


def u_to_size(ctx):
    import trimesh

    V, F0 = [list(v) for v in TET_V], np.array(TET_F)
    lim = ctx.real("max_edge", ctx.params["lo"], ctx.params["hi"])
    nv, nf, index = trimesh.remesh.subdivide_to_size(_as(ctx, V), F0, max_edge=lim, max_iter=ctx.params.get("max_iter", 10), return_index=True)
    nvo, nf = _obj(ctx, nv), np.asarray(nf)
    index = [int(i) for i in np.asarray(index)]
    worst = 0
    for f in nf:
        for a, b in ((0, 1), (1, 2), (2, 0)):
            d = [nvo[int(f[a])][i] - nvo[int(f[b])][i] for i in range(3)]
            ctx.true("edge of an output face <= max_edge", d[0] * d[0] + d[1] * d[1] + d[2] * d[2] <= lim * lim) if ctx.params.get("per_edge") else None
            worst = nparr.e_max(worst, d[0] * d[0] + d[1] * d[1] + d[2] * d[2]) if ctx.sym else max(worst, d[0] * d[0] + d[1] * d[1] + d[2] * d[2])
    ctx.true("no edge longer than the bound (%d output faces)" % len(nf), worst <= lim * lim)
    for orig in range(4):
        tot = [0, 0, 0]
        for c, o in enumerate(index):
            if o == orig:
                va = _vec_area(ctx, nvo, nf[c])
                tot = [tot[i] + va[i] for i in range(3)]
        ctx.eq("pieces of face %d tile it: vector areas add up" % orig, tot, _vec_area(ctx, V, F0[orig]))
    ctx.eq("volume preserved", _vol(ctx, nvo, nf), _vol(ctx, V, F0))


def u_loop(ctx):
    import trimesh

    V, F0 = _tet_verts(ctx), np.array(TET_F)
    nv, nf = trimesh.remesh.subdivide_loop(_as(ctx, V), F0, iterations=ctx.params.get("iterations", 1))
    nf = np.asarray(nf)
    it = ctx.params.get("iterations", 1)
    ctx.concrete_equal("face count x4 per iteration", len(nf), 4 * 4**it)
    mm = trimesh.Trimesh(vertices=_as(ctx, _obj(ctx, nv)), faces=nf, process=False)
    ctx.concrete_equal("watertight, consistently wound, Euler number 2", (bool(mm.is_watertight), bool(mm.is_winding_consistent), int(mm.euler_number)), (True, True, 2))
    ctx.concrete_equal("vertex count = V + E per iteration", len(_obj(ctx, nv)), 4 + 6 if it == 1 else 10 + 24)
    ctx.true("the smoothed solid keeps a positive volume", _vol(ctx, nv, nf) > 0)


F = "trimesh."
FUN = [F + "repair.fix_winding", F + "repair.fix_inversion", F + "repair.fix_normals", F + "repair.fill_holes", F + "base.Trimesh.invert", F + "remesh.subdivide", F + "remesh.subdivide_to_size", F + "remesh.subdivide_loop",
       F + "base.Trimesh.subdivide", F + "graph.face_adjacency", F + "graph.connected_components", F + "triangles.mass_properties"]


def units(tier):
    T = tier == "thorough"
    us = [
        Unit("fix_normals-tet", u_fix_normals, params={"bodies": 1, "multibody": False}, key="fix_normals/1", functions=FUN, bounds="tetrahedron, apex symbolic in a box, EVERY subset of faces re-wound (16)", max_paths=40),
        Unit("fix_normals-tet-rotated", u_fix_normals, params={"bodies": 1, "multibody": True, "rotate": (0, 1, 2, 3) if T else (1, 2)}, key="fix_normals/1", functions=FUN, bounds="as above, faces %s also listed from any of their 3 corners" % ("0-3 (16 x 81)" if T else "1, 2 (16 x 9)"), max_paths=1400, wall_s=600),
        Unit("fix_normals-tet-normals-read", u_fix_normals, params={"bodies": 1, "multibody": False, "read_first": True, "apex_dims": 1}, key="fix_normals/1r", functions=FUN, bounds="as fix_normals-tet (apex height symbolic only) with face_normals read before the repair", max_paths=40, wall_s=300),
        Unit("fix_normals-two-bodies", u_fix_normals, params={"bodies": 2, "multibody": True}, key="fix_normals/2", functions=FUN, bounds="two disjoint tetrahedra, apexes symbolic, EVERY subset of the 8 faces re-wound (256), multibody=True", max_paths=300, wall_s=500),
        Unit("fill_holes-cube-triangle", u_fill_holes, params={"solid": "cube", "hole": "triangle"}, key="fill_holes/cube3", functions=FUN, bounds="cube of symbolic size, any one of its 12 triangles missing", max_paths=20),
        Unit("fill_holes-cube-quad", u_fill_holes, params={"solid": "cube", "hole": "quad"}, key="fill_holes/cube4", functions=FUN, bounds="cube of symbolic size, any one of its 6 sides (two triangles) missing", max_paths=10),
        Unit("fill_holes-tet", u_fill_holes, params={"solid": "tet", "hole": "triangle"}, key="fill_holes/tet", functions=FUN, bounds="tetrahedron with symbolic apex, any one face missing", max_paths=10),
        Unit("subdivide-all", u_subdivide, key="subdivide/all", functions=FUN, bounds="tetrahedron with symbolic apex (3 coordinates), all faces", max_paths=10),
        Unit("subdivide-subset", u_subdivide, params={"subset": True}, key="subdivide/subset", functions=FUN, bounds="as above, EVERY non-empty subset of faces (15)", max_paths=40, wall_s=300),
        Unit("subdivide-method-twice", u_subdivide, params={"route": "method", "iterations": 2}, key="subdivide/method", functions=FUN, bounds="Trimesh.subdivide() applied twice", max_paths=10, wall_s=300),
        Unit("subdivide_to_size", u_to_size, params={"lo": 2.2, "hi": 9}, key="to_size", functions=FUN, bounds="catalogue tetrahedron, EVERY bound max_edge in [2.2, 9] (up to 2 rounds)", max_paths=80, wall_s=500),
        Unit("subdivide_loop", u_loop, key="loop", functions=FUN, bounds="tetrahedron with symbolic apex, one iteration", max_paths=10, wall_s=300),
    ]
    if T:
        us.append(Unit("subdivide_to_size-small", u_to_size, params={"lo": 1.2, "hi": 2.2}, key="to_size", functions=FUN, bounds="catalogue tetrahedron, EVERY bound in [1.2, 2.2] (3 rounds)", max_paths=300, wall_s=2000))
        us.append(Unit("subdivide_loop-2", u_loop, params={"iterations": 2}, key="loop", functions=FUN, bounds="two iterations", max_paths=10, wall_s=600))
    return us
