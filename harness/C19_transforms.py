"""C19 -- rotation / transform representations convert consistently."""
import numpy as np

from symx import lib, nparr
from symx.harness import Unit

META = {
    "level": "other",
    "explanation": "Symbolic execution of trimesh.transformations on z3 reals; angles are unit-circle points (cos,sin) so every trigonometric round trip is an algebraic identity "
    "decided by z3 nlsat per path (largest-diagonal branches, gimbal branches, identity shortcuts are paths).",
    "assumptions": [
        "angles are identified modulo 2*pi (Angle = point on the unit circle); arcsin/arccos return the principal branch as (sqrt(1-x^2), x)",
        "paths through np.linalg.eigh/svd (quaternion_from_matrix(isprecise=False), align_vectors, fix_rigid repair) are outside the encodable fragment; rotation_from_matrix is checked with np.linalg.eig replaced by its contract (the unit eigenvector for eigenvalue 1 is +-axis), i.e. the claim is about the angle/branch logic around the LAPACK call",
    ],
}

AXES = ["sxyz", "sxyx", "sxzy", "sxzx", "syzx", "syzy", "syxz", "syxy", "szxy", "szxz", "szyx", "szyz",
        "rzyx", "rxyx", "ryzx", "rxzx", "rxzy", "ryzy", "rzxy", "ryxy", "ryxz", "rzxz", "rxyz", "rzyz"]


def _orthonormal(ctx, name, R):
    R3 = np.asarray(nparr.base(R) if isinstance(R, np.ndarray) else R, dtype=object)[:3, :3] if ctx.sym else np.asarray(R)[:3, :3]
    ctx.eq(name + ": R^T R = I", R3.T.dot(R3), np.eye(3, dtype=int))
    d = (R3[0, 0] * (R3[1, 1] * R3[2, 2] - R3[1, 2] * R3[2, 1]) - R3[0, 1] * (R3[1, 0] * R3[2, 2] - R3[1, 2] * R3[2, 0]) + R3[0, 2] * (R3[1, 0] * R3[2, 1] - R3[1, 1] * R3[2, 0]))
    ctx.eq(name + ": det = +1", d, 1)


def _unit_quat(ctx, name):
    q = ctx.reals(name, 4, -1, 1)
    ctx.assume(q[0] * q[0] + q[1] * q[1] + q[2] * q[2] + q[3] * q[3] == 1) if ctx.sym else None
    if not ctx.sym:
        n = np.linalg.norm(q)
        ctx.assume(n > 1e-3)
        q = q / n
    return q


def u_quat_matrix(ctx):
    from trimesh import transformations as tf

    q = ctx.reals("q", 4, -4, 4)
    n = q[0] * q[0] + q[1] * q[1] + q[2] * q[2] + q[3] * q[3]
    ctx.assume(n >= 1e-3)
    M = tf.quaternion_matrix(q)
    _orthonormal(ctx, "quaternion_matrix", M)
    ctx.eq("homogeneous last row/col", [M[3, 0], M[3, 1], M[3, 2], M[3, 3], M[0, 3], M[1, 3], M[2, 3]], [0, 0, 0, 1, 0, 0, 0])
    # scale invariance: q and 2q are the same rotation
    ctx.eq("matrix(q) = matrix(-q)", tf.quaternion_matrix(-q), M)


def u_quat_roundtrip(ctx):
    from trimesh import transformations as tf

    q = _unit_quat(ctx, "q")
    M = tf.quaternion_matrix(q)
    q2 = tf.quaternion_from_matrix(M, isprecise=True)
    if ctx.sym:
        import z3
        from symx.core import _term

        same = z3.And(*[_term(q2[i]) == _term(q[i]) for i in range(4)])
        neg = z3.And(*[_term(q2[i]) == -_term(q[i]) for i in range(4)])
        from symx.core import SymBool

        ctx.true("from_matrix(matrix(q)) = +-q", SymBool(z3.Or(same, neg)))
        ctx.true("canonical sign w >= 0", q2[0] >= 0)
    else:
        ok = np.allclose(q2, q, atol=1e-6) or np.allclose(q2, -q, atol=1e-6)
        ctx.true("from_matrix(matrix(q)) = +-q", ok, "q=%r q2=%r" % (q, q2))
        ctx.true("canonical sign w >= 0", q2[0] >= -1e-12)


def _hamilton(p, q):
    w1, x1, y1, z1 = p
    w0, x0, y0, z0 = q
    return [w1 * w0 - x1 * x0 - y1 * y0 - z1 * z0, w1 * x0 + x1 * w0 + y1 * z0 - z1 * y0, w1 * y0 - x1 * z0 + y1 * w0 + z1 * x0, w1 * z0 + x1 * y0 - y1 * x0 + z1 * w0]


def u_quat_algebra(ctx):
    from trimesh import transformations as tf

    q1 = _unit_quat(ctx, "a")
    cat = [(1, 2, 2, 4, 5), (2, 3, 6, 0, 7), (-2, 4, 5, 6, 9), (0, -1, 4, 8, 9)][ctx.params["cat"]]
    q2 = np.array([lib.Fr(v, cat[4]) for v in cat[:4]], dtype=object)
    q2 = nparr.wrap(q2) if ctx.sym else q2.astype(float)
    M1, M2 = tf.quaternion_matrix(q1), tf.quaternion_matrix(q2)
    ctx.eq("quaternion_multiply = Hamilton product", tf.quaternion_multiply(q1, q2), _hamilton(q1, q2))
    k = (ctx.params["cat"] + 1) % 4
    cat1 = [(1, 2, 2, 4, 5), (2, 3, 6, 0, 7), (-2, 4, 5, 6, 9), (0, -1, 4, 8, 9)][k]
    qc = np.array([lib.Fr(v, cat1[4]) for v in cat1[:4]], dtype=object)
    qc = nparr.wrap(qc) if ctx.sym else qc.astype(float)
    Mc = tf.quaternion_matrix(qc)
    ctx.eq("matrix(qc*q2) = matrix(qc).matrix(q2) (catalogue pair)", tf.quaternion_matrix(tf.quaternion_multiply(qc, q2)), lib.matmul(Mc, M2) if ctx.sym else Mc.dot(M2))
    ctx.eq("matrix(conjugate q) = matrix(q)^T", tf.quaternion_matrix(tf.quaternion_conjugate(q1)), (nparr.base(M1) if ctx.sym else M1).T)
    ctx.eq("matrix(inverse q) = matrix(q)^T", tf.quaternion_matrix(tf.quaternion_inverse(q1)), (nparr.base(M1) if ctx.sym else M1).T)


def u_rotation_matrix(ctx):
    from trimesh import transformations as tf

    th = ctx.angle("th")
    d = ctx.reals("d", 3, -4, 4)
    p = ctx.reals("p", 3, -10, 10)
    ctx.assume(d[0] * d[0] + d[1] * d[1] + d[2] * d[2] >= 1e-2)
    R = tf.rotation_matrix(th, d, p)
    _orthonormal(ctx, "rotation_matrix", R)
    Rb = nparr.base(R) if ctx.sym else R
    ctx.eq("axis point is fixed", lib.apply_h(Rb, p), p)
    ctx.eq("axis direction is fixed", [sum(Rb[i, j] * d[j] for j in range(3)) for i in range(3)], d)
    c = np.cos(th)
    ctx.eq("trace = 1 + 2 cos", Rb[0, 0] + Rb[1, 1] + Rb[2, 2], 1 + 2 * c)
    R0 = tf.rotation_matrix(th, d)
    ctx.eq("no point: no translation", [R0[0, 3], R0[1, 3], R0[2, 3]], [0, 0, 0])
    # sense of rotation: for d = z the matrix is the counter-clockwise planar rotation
    Rz = tf.rotation_matrix(th, [0, 0, 1])
    ctx.eq("right-handed about +z", [Rz[0, 0], Rz[0, 1], Rz[1, 0], Rz[1, 1]], [c, -np.sin(th), np.sin(th), c])


def _eig_stub(direction, sign):
    """np.linalg.eig by contract for the two calls rotation_from_matrix makes: the eigenvector for eigenvalue 1 of a rotation's
    3x3 block is +-(unit axis); of the homogeneous 4x4 (rotation about the origin) the last one reported is (0,0,0,1)"""

    def eig(M):
        n = np.shape(M)[0]
        w = np.zeros(n, dtype=object)
        w[0] = 1
        W = np.zeros((n, n), dtype=object)
        if n == 3:
            for i in range(3):
                W[i, 0] = sign * direction[i]
        else:
            W[3, 0] = 1
        return nparr.set_sd(nparr.wrap(w), np.float64), nparr.set_sd(nparr.wrap(W), np.float64)

    return eig


def u_rotation_from_matrix(ctx):
    """rotation_matrix(*rotation_from_matrix(R)) = R on every sina-branch (np.linalg.eig stubbed by its contract)"""
    from trimesh import transformations as tf
    from symx import core

    th = ctx.angle("th")
    sign = ctx.params["sign"]
    mode = ctx.params["plane"]
    if mode == "z":
        # general axis: rational unit vectors with d_z != 0 (a fully symbolic unit axis does not decide within 60 s)
        cat = [(1, 2, 2, 3), (2, -3, 6, 7), (-4, 4, 7, 9), (6, 2, -3, 7)][ctx.params.get("cat", 0)]
        d = np.array([lib.Fr(v, cat[3]) for v in cat[:3]], dtype=object)
        d = nparr.set_sd(nparr.wrap(d), np.float64) if ctx.sym else d.astype(float)
    else:
        d = ctx.reals("d", 3, -1, 1)
        ctx.assume(d[0] * d[0] + d[1] * d[1] + d[2] * d[2] == 1) if ctx.sym else None
        if not ctx.sym:
            n = np.linalg.norm(d)
            ctx.assume(n > 1e-3)
            d = d / n
    # which sina branch: general axis / axis in the XY plane / axis = +-x (margins keep the float replay on the same branch)
    if mode == "z":
        pass
    elif mode == "xy":
        ctx.assume(d[2] == 0 if ctx.sym else abs(d[2]) < 1e-12)
        ctx.assume(abs(d[1]) >= 1e-3)
    else:
        ctx.assume((d[2] == 0) & (d[1] == 0) if ctx.sym else (abs(d[2]) < 1e-12 and abs(d[1]) < 1e-12))
    if not ctx.sym and mode != "z":
        d = np.array([d[0], d[1] if mode == "xy" else 0.0, 0.0])
        d = d / np.linalg.norm(d)
    R = tf.rotation_matrix(th, d)
    if ctx.sym:
        core.ENGINE.opts = dict(core.ENGINE.opts)
        core.ENGINE.opts["stubs"] = {"linalg.eig": _eig_stub(d, sign)}
    angle, direction, point = tf.rotation_from_matrix(R)
    R2 = tf.rotation_matrix(angle, direction)
    ctx.eq("rotation_matrix(*rotation_from_matrix(R)) = R  [axis %s, eigenvector sign %+d]" % (mode, sign), (nparr.base(R2) if ctx.sym else R2)[:3, :3], (nparr.base(R) if ctx.sym else R)[:3, :3])


def u_axis_angle_quat(ctx):
    from trimesh import transformations as tf

    th = ctx.angle("th", half=True)
    d = ctx.reals("d", 3, -4, 4)
    ctx.assume(d[0] * d[0] + d[1] * d[1] + d[2] * d[2] >= 1e-2)
    q = tf.quaternion_about_axis(th, d)
    ctx.eq("matrix(about_axis(th,d)) = rotation_matrix(th,d)", tf.quaternion_matrix(q), tf.rotation_matrix(th, d))
    ctx.eq("unit quaternion", q[0] * q[0] + q[1] * q[1] + q[2] * q[2] + q[3] * q[3], 1)


def u_euler_matrix(ctx):
    from trimesh import transformations as tf

    ax = ctx.params["axes"]
    a, b, c = ctx.angle("a"), ctx.angle("b"), ctx.angle("c")
    R = tf.euler_matrix(a, b, c, ax)
    _orthonormal(ctx, "euler_matrix " + ax, R)
    # independent definition from the NAME of the convention: 's' = rotations about the fixed axes in the order named,
    # 'r' = rotations about the moving axes in the order named
    idx = {"x": 0, "y": 1, "z": 2}
    l1, l2, l3 = (idx[ch] for ch in ax[1:])

    def elem(axis, ang):
        v = [0, 0, 0]
        v[axis] = 1
        return tf.rotation_matrix(ang, v)

    mm = lib.matmul if ctx.sym else (lambda x, y: x.dot(y))
    if ax[0] == "s":
        ref = mm(mm(elem(l3, c), elem(l2, b)), elem(l1, a))
    else:
        ref = mm(mm(elem(l1, a), elem(l2, b)), elem(l3, c))
    ctx.eq("euler_matrix %s = product of axis rotations" % ax, R, ref)


def u_euler_roundtrip(ctx):
    from trimesh import transformations as tf

    ax = ctx.params["axes"]
    a, b, c = ctx.angle("a"), ctx.angle("b"), ctx.angle("c")
    R0 = tf.euler_matrix(a, b, c, ax)
    fa, par, rep, frame = tf._AXES2TUPLE[ax]
    # general position: stay a margin away from the gimbal threshold on the regular claim
    sb, cb = np.sin(b), np.cos(b)
    gimbal_measure = abs(sb) if rep else abs(cb)
    mode = ctx.params["mode"]
    if mode == "regular":
        ctx.assume(gimbal_measure >= 1e-6)
    else:
        ctx.assume(gimbal_measure == 0 if ctx.sym else gimbal_measure < 1e-12)
    al, be, ga = tf.euler_from_matrix(R0, ax)
    R1 = tf.euler_matrix(al, be, ga, ax)
    ctx.eq("euler_matrix(euler_from_matrix(R)) = R  [%s, %s]" % (ax, mode), R1, R0)


def _hamilton(p, q):
    w1, x1, y1, z1 = p
    w0, x0, y0, z0 = q
    return [w1 * w0 - x1 * x0 - y1 * y0 - z1 * z0, w1 * x0 + x1 * w0 + y1 * z0 - z1 * y0, w1 * y0 - x1 * z0 + y1 * w0 + z1 * x0, w1 * z0 + x1 * y0 - y1 * x0 + z1 * w0]


def u_quat_from_euler(ctx):
    """quaternion_from_euler equals (up to sign) the Hamilton product of the three axis quaternions named by the convention"""
    from trimesh import transformations as tf

    ax = ctx.params["axes"]
    a, b, c = ctx.angle("a", half=True), ctx.angle("b", half=True), ctx.angle("c", half=True)
    q = tf.quaternion_from_euler(a, b, c, ax)
    idx = {"x": 1, "y": 2, "z": 3}
    l1, l2, l3 = (idx[ch] for ch in ax[1:])

    def axq(axis, ang):
        h = ang / 2
        v = [np.cos(h), 0, 0, 0]
        v[axis] = np.sin(h)
        return v

    if ax[0] == "s":
        ref = _hamilton(_hamilton(axq(l3, c), axq(l2, b)), axq(l1, a))
    else:
        ref = _hamilton(_hamilton(axq(l1, a), axq(l2, b)), axq(l3, c))
    if ctx.sym:
        import z3
        from symx.core import SymBool, _term

        same = z3.And(*[_term(q[i]) == _term(ref[i]) for i in range(4)])
        neg = z3.And(*[_term(q[i]) == -_term(ref[i]) for i in range(4)])
        ctx.true("quaternion_from_euler = +-(product of axis quaternions) [%s]" % ax, SymBool(z3.Or(same, neg)))
    else:
        q = np.asarray(q, dtype=float)
        ref = np.asarray(ref, dtype=float)
        ctx.true("quaternion_from_euler = +-(product of axis quaternions) [%s]" % ax, bool(np.allclose(q, ref, atol=1e-7) or np.allclose(q, -ref, atol=1e-7)), "q=%r ref=%r" % (q, ref))
    ctx.eq("unit", q[0] * q[0] + q[1] * q[1] + q[2] * q[2] + q[3] * q[3], 1)


def u_transform_points(ctx):
    from trimesh import transformations as tf

    dim = ctx.params["dim"]
    M = ctx.reals("m", (dim, dim + 1), -100, 100)
    P = ctx.reals("p", (2, dim), -100, 100)
    last = np.zeros((1, dim + 1), dtype=object)
    last[0, dim] = 1
    Mh = np.vstack([nparr.base(M) if ctx.sym else M, last])
    Mh = nparr.wrap(Mh) if ctx.sym else Mh.astype(float)
    got = tf.transform_points(P, Mh)
    exp = [[sum(M[i, j] * P[n, j] for j in range(dim)) + M[i, dim] for i in range(dim)] for n in range(2)]
    near_identity = abs(Mh - np.eye(dim + 1)).max() < 1e-8 if not ctx.sym else None
    if ctx.sym:
        dmax = (nparr.wrap(np.abs(nparr.base(Mh) - np.eye(dim + 1, dtype=int)))).max()
        if dmax < 1e-8:
            ctx.eq("identity shortcut (|M-I|max < 1e-8): points returned unchanged, i.e. within 1e-8*(sum|p|+1) of M.p", got, P)
        else:
            ctx.eq("transform_points = homogeneous product (%dD)" % dim, got, exp)
    else:
        if near_identity:
            ctx.eq("identity shortcut (|M-I|max < 1e-8): points returned unchanged, i.e. within 1e-8*(sum|p|+1) of M.p", got, P)
        else:
            ctx.eq("transform_points = homogeneous product (%dD)" % dim, got, exp)
    got2 = tf.transform_points(P, Mh, translate=False)
    exp2 = [[sum(M[i, j] * P[n, j] for j in range(dim)) for i in range(dim)] for n in range(2)]
    if ctx.sym:
        if dmax < 1e-8:
            pass
        else:
            ctx.eq("translate=False drops the translation (%dD)" % dim, got2, exp2)
    elif not near_identity:
        ctx.eq("translate=False drops the translation (%dD)" % dim, got2, exp2)


def u_transform_around(ctx):
    from trimesh import transformations as tf

    dim = ctx.params["dim"]
    M = ctx.reals("m", (dim, dim + 1), -10, 10)
    p = ctx.reals("p", dim, -10, 10)
    last = np.zeros((1, dim + 1), dtype=object)
    last[0, dim] = 1
    Mh = np.vstack([nparr.base(M) if ctx.sym else M, last])
    Mh = nparr.wrap(Mh) if ctx.sym else Mh.astype(float)
    R = tf.transform_around(Mh, p)
    Rb = nparr.base(R) if ctx.sym else R
    img = [sum(Rb[i, j] * p[j] for j in range(dim)) + Rb[i, dim] for i in range(dim)]
    ctx.eq("transform_around(M,p).p = p + translation(M)  (p fixed when M has no translation)", img, [p[i] + M[i, dim] for i in range(dim)])
    ctx.eq("linear part unchanged", Rb[:dim, :dim], (nparr.base(M) if ctx.sym else M)[:, :dim])


def u_planar(ctx):
    from trimesh import transformations as tf

    th = ctx.angle("th")
    off = ctx.reals("o", 2, -10, 10)
    pt = ctx.reals("q", 2, -10, 10)
    T = tf.planar_matrix(offset=off, theta=th)
    Tb = nparr.base(T) if ctx.sym else T
    ctx.eq("planar: rotation block orthonormal", Tb[:2, :2].dot(Tb[:2, :2].T), np.eye(2, dtype=int))
    ctx.eq("planar: det +1", Tb[0, 0] * Tb[1, 1] - Tb[0, 1] * Tb[1, 0], 1)
    ctx.eq("planar: offset column, last row", [Tb[0, 2], Tb[1, 2], Tb[2, 0], Tb[2, 1], Tb[2, 2]], [off[0], off[1], 0, 0, 1])
    T2 = tf.planar_matrix(theta=th, point=pt)
    T2b = nparr.base(T2) if ctx.sym else T2
    ctx.eq("planar about a point leaves it fixed", [T2b[0, 0] * pt[0] + T2b[0, 1] * pt[1] + T2b[0, 2], T2b[1, 0] * pt[0] + T2b[1, 1] * pt[1] + T2b[1, 2]], pt)
    M3 = tf.planar_matrix_to_3D(T)
    M3b = nparr.base(M3) if ctx.sym else M3
    x = ctx.reals("x", 3, -10, 10)
    img3 = lib.apply_h(M3b, x)
    ctx.eq("to_3D acts as the planar matrix on xy and keeps z", img3, [Tb[0, 0] * x[0] + Tb[0, 1] * x[1] + Tb[0, 2], Tb[1, 0] * x[0] + Tb[1, 1] * x[1] + Tb[1, 2], x[2]])
    ctx.true("planar_matrix_to_3D result is rigid", bool(tf.is_rigid(M3)))


def u_scale_translate(ctx):
    from trimesh import transformations as tf

    s = ctx.reals("s", 3, -10, 10)
    t = ctx.reals("t", 3, -10, 10)
    x = ctx.reals("x", 3, -10, 10)
    M = tf.scale_and_translate(scale=s, translate=t)
    ctx.eq("scale_and_translate(s,t).x = s*x + t", lib.apply_h(nparr.base(M) if ctx.sym else M, x), [s[i] * x[i] + t[i] for i in range(3)])
    k = ctx.real("k", -10, 10)
    M2 = tf.scale_and_translate(scale=k, translate=t)
    ctx.eq("scalar scale", lib.apply_h(nparr.base(M2) if ctx.sym else M2, x), [k * x[i] + t[i] for i in range(3)])


def u_is_rigid(ctx):
    from trimesh import transformations as tf

    q = _unit_quat(ctx, "q")
    t = ctx.reals("t", 3, -10, 10)
    M = tf.quaternion_matrix(q)
    M[:3, 3] = t
    ctx.true("rotation+translation is rigid", bool(tf.is_rigid(M)))
    k = ctx.real("k", 1.001, 10)
    M2 = M.copy()
    M2[:3, :3] = M2[:3, :3] * k
    ctx.true("scaled rotation is not rigid", not bool(tf.is_rigid(M2)))


def u_compose(ctx):
    """decompose(compose(S, Z, A, T)) returns the factors (scale > 0, |beta| < pi/2) and recomposes to the same matrix"""
    from trimesh import transformations as tf

    cat = [(1, 0), (lib.Fr(3, 5), lib.Fr(4, 5)), (lib.Fr(5, 13), lib.Fr(-12, 13)), (lib.Fr(-4, 5), lib.Fr(3, 5))]
    from symx.angle import Angle
    import math

    def cat_angle(i, positive_cos=False):
        c, s = cat[i]
        if positive_cos and c <= 0:
            c, s = cat[1]
        return Angle(c, s) if ctx.sym else math.atan2(float(s), float(c))

    symset = ctx.params["sym"]
    ia, ib, ic = ctx.params.get("cat", (1, 1, 2))
    a = ctx.angle("a") if "a" in symset else cat_angle(ia)
    if "b" in symset:
        b = ctx.angle("b")
        ctx.assume(np.cos(b) >= 1e-3)
    else:
        b = cat_angle(ib, True)
    c = ctx.angle("c") if "c" in symset else cat_angle(ic)
    S = ctx.reals("s", 3, 0.01, 100) if "S" in symset else [2, lib.Fr(1, 2), 3]
    Z = ctx.reals("z", 3, -10, 10) if "Z" in symset else [lib.Fr(1, 4), lib.Fr(-1, 3), lib.Fr(1, 5)]
    T = ctx.reals("t", 3, -100, 100) if "T" in symset else [1, -2, 3]
    if not ctx.sym:
        S, Z, T = [float(v) for v in S], [float(v) for v in Z], [float(v) for v in T]
    M0 = tf.compose_matrix(scale=S, shear=Z, angles=[a, b, c], translate=T)
    scale, shear, angles, trans, persp = tf.decompose_matrix(M0)
    ctx.eq("scale factors", scale, S)
    ctx.eq("shear factors", shear, Z)
    ctx.eq("translation", trans, T)
    ctx.eq("perspective", persp, [0, 0, 0, 1])
    for nm, g, e in zip("abc", angles, [a, b, c]):
        ctx.eq_angle("angle " + nm, g, e)


F = "trimesh.transformations."


def units(tier):
    us = [
        Unit("quaternion_matrix", u_quat_matrix, functions=[F + "quaternion_matrix"], bounds="all quaternions with 1e-3 <= |q|^2, |q_i| <= 4"),
        Unit("quaternion_roundtrip", u_quat_roundtrip, functions=[F + "quaternion_matrix", F + "quaternion_from_matrix(isprecise=True)"], bounds="all unit quaternions; every largest-diagonal branch is a path", max_paths=200, wall_s=300),
    ] + [
        Unit("quaternion_algebra-cat%d" % k, u_quat_algebra, params={"cat": k}, key="quaternion_algebra", functions=[F + "quaternion_multiply", F + "quaternion_conjugate", F + "quaternion_inverse"],
             bounds="every unit quaternion x rational unit quaternion %d of the catalogue" % k, subspace="symbolic unit q1 x catalogue q2", ob_ms=60000) for k in ((0, 2) if tier == "quick" else (0, 1, 2, 3))
    ] + [
        Unit("rotation_matrix", u_rotation_matrix, functions=[F + "rotation_matrix", F + "unit_vector"], bounds="all angles, directions 1e-2<=|d|^2, |d_i|<=4, points |p_i|<=10", ob_ms=60000, wall_s=300),
        Unit("axis_angle_vs_quaternion", u_axis_angle_quat, functions=[F + "quaternion_about_axis", F + "rotation_matrix", F + "vector_norm"], bounds="all angles (half-angle parametrised), directions as above", ob_ms=60000, wall_s=300),
    ] + [
        Unit("rotation_from_matrix-%s-sign%+d" % (pl, sg), u_rotation_from_matrix, params={"plane": pl, "sign": sg}, key="rotation_from_matrix", functions=[F + "rotation_from_matrix", F + "rotation_matrix"],
             bounds="all angles; unit axis %s; np.linalg.eig stubbed by contract (unit eigenvector for eigenvalue 1 = %+d * axis)" % ({"z": "with |d_z|>=1e-3", "xy": "in the XY plane, |d_y|>=1e-3", "x": "= +-x"}[pl], sg), ob_ms=60000, wall_s=300)
        for pl in ("xy", "x") for sg in (1, -1)
    ] + [
        Unit("rotation_from_matrix-z-cat%d-sign%+d" % (c, sg), u_rotation_from_matrix, params={"plane": "z", "sign": sg, "cat": c}, key="rotation_from_matrix", functions=[F + "rotation_from_matrix", F + "rotation_matrix"],
             bounds="all angles; axis %d of the rational unit-vector catalogue (d_z != 0); np.linalg.eig stubbed by contract" % c, subspace="axis catalogue x symbolic angle", ob_ms=60000, wall_s=300)
        for c in ((0, 1) if tier == "quick" else (0, 1, 2, 3)) for sg in (1, -1)
    ] + [
        Unit("transform_around_3D", u_transform_around, params={"dim": 3}, functions=[F + "transform_around"], bounds="all affine 4x4 |m|<=10, points |p|<=10"),
        Unit("transform_around_2D", u_transform_around, params={"dim": 2}, functions=[F + "transform_around"], bounds="all affine 3x3"),
        Unit("transform_points_3D", u_transform_points, params={"dim": 3}, functions=[F + "transform_points"], bounds="all affine 4x4 |m|<=100, 2 points |p|<=100; identity shortcut path separate"),
        Unit("transform_points_2D", u_transform_points, params={"dim": 2}, functions=[F + "transform_points"], bounds="all affine 3x3 |m|<=100, 2 points"),
        Unit("planar", u_planar, functions=[F + "planar_matrix", F + "planar_matrix_to_3D", F + "transform_around", F + "is_rigid"], bounds="all angles, offsets, points |.|<=10", ob_ms=60000),
        Unit("scale_and_translate", u_scale_translate, functions=[F + "scale_and_translate"], bounds="all scale/translate |.|<=10"),
        Unit("is_rigid", u_is_rigid, functions=[F + "is_rigid"], bounds="unit quaternion rotations + translation; uniform scale k in [1.001,10]", ob_ms=60000),
    ]
    axes_q = AXES if tier == "thorough" else AXES
    for ax in axes_q:
        us.append(Unit("euler_matrix-" + ax, u_euler_matrix, params={"axes": ax}, functions=[F + "euler_matrix", F + "rotation_matrix"], key="euler_matrix", bounds="all angle triples", ob_ms=60000))
        us.append(Unit("euler_roundtrip-regular-" + ax, u_euler_roundtrip, params={"axes": ax, "mode": "regular"}, functions=[F + "euler_matrix", F + "euler_from_matrix"], key="euler_roundtrip",
                       bounds="all angle triples at margin 1e-6 from gimbal lock", ob_ms=90000, wall_s=400))
        us.append(Unit("euler_roundtrip-gimbal-" + ax, u_euler_roundtrip, params={"axes": ax, "mode": "gimbal"}, functions=[F + "euler_matrix", F + "euler_from_matrix"], key="euler_roundtrip",
                       bounds="exact gimbal lock (middle angle at the singular value), other two angles arbitrary", ob_ms=90000, wall_s=400))
        us.append(Unit("quaternion_from_euler-" + ax, u_quat_from_euler, params={"axes": ax}, functions=[F + "quaternion_from_euler", F + "quaternion_matrix", F + "euler_matrix"], key="quaternion_from_euler",
                       bounds="all angle triples (half angles on the unit circle)", ob_ms=60000))
    # measured: symbolic shear / translation decide in seconds; symbolic scale needs ~4 min (nested sqrt of Gram-Schmidt);
    # symbolic angles through decompose_matrix do not decide within 10 min and are not registered (see DESIGN.md C19)
    variants = ["Z", "T"] if tier == "quick" else ["Z", "T", "S", "ST"]
    for v in variants:
        us.append(Unit("compose-sym-" + v, u_compose, params={"sym": v}, key="compose", functions=[F + "compose_matrix", F + "decompose_matrix", F + "euler_matrix"],
                       bounds="symbolic factors: %s (scale in [0.01,100], shear |.|<=10, translate |.|<=100, angles any with cos(beta)>=1e-3); the other factors fixed rationals" % v,
                       subspace="union of sub-spaces: one group of factors symbolic at a time", ob_ms=30000, wall_s=200))
    return us
