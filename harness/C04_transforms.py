"""C04 -- homogeneous transforms act covariantly on every geometry."""
import numpy as np

from symx import lib, nparr
from symx.lib import l_and, l_not, l_or
from symx.harness import Unit

META = {
    "level": "other",
    "explanation": "The real apply_transform of Trimesh, PointCloud, Path2D/3D, Scene and VoxelGrid runs on objects whose coordinates AND matrix parameters are z3 reals; per path z3 (nlsat) decides that every "
    "point moves to M.p, faces are re-wound exactly when det M < 0, volume scales by |det M|, the centre of mass maps through M, M followed by its inverse restores the geometry and A then B equals B.A.",
    "assumptions": [
        "matrix sub-spaces (each fully symbolic in its parameters): translation; diag(sx,sy,sz) with every sign pattern (mirrors, anisotropic); one-parameter shear; s*R+t with R from an exact rational rotation catalogue (s of either sign); near-identity I+eps*E on both sides of the 1e-8 / 1e-6 shortcuts",
        "np.random.random inside flips_winding is an environment stub: a fixed catalogue of non-degenerate rational triangles in [0,1)^3 when the matrix is symbolic (the decision must not depend on the draw)",
        "meshes: one symbolic tetrahedron (12 reals, |x|<=100); |volume| >= 1e-6 where the centre of mass is asserted",
    ],
}

FACES_TET = np.array([[0, 2, 1], [0, 1, 3], [1, 2, 3], [0, 3, 2]])
# the environment's "random" triangles in [0,1)^3 for the units with a symbolic matrix: three axis-parallel right triangles (any draw is a
# legitimate behaviour of np.random.random; that the decision does not depend on the draw is the separate flips_winding-* units' obligation)
_A, _B = lib.Fr(1, 10), lib.Fr(9, 10)
_RAND = [[_A, _A, _A], [_B, _A, _A], [_A, _B, _A],
         [_A, _A, _A], [_A, _B, _A], [_A, _A, _B],
         [_A, _A, _A], [_A, _A, _B], [_B, _A, _A]]
# generic rational triangles for the flips_winding units (catalogue matrix, one triangle symbolic)
_RAND2 = [[lib.Fr(1, 7), lib.Fr(5, 9), lib.Fr(2, 11)], [lib.Fr(6, 7), lib.Fr(1, 9), lib.Fr(3, 11)], [lib.Fr(3, 7), lib.Fr(8, 9), lib.Fr(9, 11)],
          [lib.Fr(1, 13), lib.Fr(2, 5), lib.Fr(4, 5)], [lib.Fr(7, 13), lib.Fr(1, 5), lib.Fr(1, 3)], [lib.Fr(11, 13), lib.Fr(3, 5), lib.Fr(2, 3)],
          [lib.Fr(2, 3), lib.Fr(1, 4), lib.Fr(1, 17)], [lib.Fr(1, 8), lib.Fr(3, 4), lib.Fr(5, 17)], [lib.Fr(5, 8), lib.Fr(1, 2), lib.Fr(16, 17)]]


def _random_stub(sym):
    def random(size=None):
        a = np.array(_RAND, dtype=object)
        return nparr.set_sd(nparr.wrap(a.copy()), np.float64) if sym else np.array([[float(x) for x in r] for r in a])

    return random


def _matrix(ctx, kind, tag=""):
    """(real matrix for the code, exact object matrix for the oracle, exact inverse, det)"""
    M = np.zeros((4, 4), dtype=object)
    for i in range(4):
        M[i, i] = 1
    Mi = M.copy()
    if kind == "translate":
        t = ctx.reals("t" + tag, 3, -50, 50)
        ctx.assume(l_or(t[0] >= 1e-3, t[0] <= -1e-3))  # away from the 1e-8 identity shortcut (that side is unit 'nearA')
        for i in range(3):
            M[i, 3] = t[i]
            Mi[i, 3] = -t[i]
        det = 1
    elif kind == "scale":
        s = ctx.reals("s" + tag, 3, -10, 10)
        for x in s:
            ctx.assume(l_or(x >= 0.1, x <= -0.1))
        ctx.assume(l_or(s[0] >= 1.01, s[0] <= 0.99))  # away from the identity shortcuts
        if ctx.params.get("similar_or_far"):
            # either exactly a scaled reflection (equal squares) or clearly anisotropic: the 1e-8 band of apply_transform's similarity test is excluded
            q = [x * x for x in s]
            ctx.assume(l_or(l_and(q[0] == q[1], q[1] == q[2]), q[0] - q[1] >= 1e-3, q[1] - q[0] >= 1e-3, q[1] - q[2] >= 1e-3, q[2] - q[1] >= 1e-3))
        for i in range(3):
            M[i, i] = s[i]
            Mi[i, i] = 1 / s[i]
        det = s[0] * s[1] * s[2]
    elif kind == "shear":
        k = ctx.real("k" + tag, -5, 5)
        ctx.assume(l_or(k >= 1e-3, k <= -1e-3))
        M[0, 1] = k
        Mi[0, 1] = -k
        det = 1
    elif kind.startswith("sim"):
        R = lib.ROTATIONS[int(kind[3:])]
        s = ctx.real("s" + tag, -10, 10)
        ctx.assume(l_or(s >= 0.1, s <= -0.1))
        t = ctx.reals("t" + tag, 3, -50, 50)
        for i in range(3):
            for j in range(3):
                M[i, j] = s * R[i, j]
                Mi[i, j] = R[j, i] / s
            M[i, 3] = t[i]
        for i in range(3):
            Mi[i, 3] = -(Mi[i, 0] * t[0] + Mi[i, 1] * t[1] + Mi[i, 2] * t[2])
        det = s * s * s
    elif kind.startswith("near"):
        band = kind[4:]
        # transform_points returns the points unchanged when max|M - I| = 3*eps < 1e-8 (band A); apply_transform itself compares
        # ptp(M - I) = 5*eps with 1e-8 and, for has_rotation, with 1e-6 (bands B / C lie on either side of that)
        lo, hi = {"A": (0, 3.3e-9), "B": (3.4e-9, 1.9e-7), "C": (1.3e-7, 1e-5)}[band]
        e = ctx.real("eps" + tag, lo, hi)
        E = [[1, -2, lib.Fr(1, 2)], [3, lib.Fr(-1, 3), 1], [-1, 2, lib.Fr(1, 4)]] if band != "C" else [[5, 0, 0], [0, -3, 0], [0, 0, 1]]
        for i in range(3):
            for j in range(3):
                M[i, j] = (1 if i == j else 0) + e * E[i][j]
        det = None
        Mi = None
    else:
        raise ValueError(kind)
    Mreal = nparr.set_sd(nparr.wrap(M.copy()), np.float64) if ctx.sym else np.array([[float(v) for v in r] for r in M])
    return Mreal, M, Mi, det


def _as(ctx, M):
    return nparr.set_sd(nparr.wrap(np.array(M, dtype=object)), np.float64) if ctx.sym else np.array([[float(v) for v in r] for r in M])


_TET_CAT = [(0, 0, 0), (4, 0, 1), (1, 5, 0), (2, 1, 6)]


def _tet(ctx):
    import trimesh

    if ctx.params.get("mesh") == "cat":
        V = np.array(_TET_CAT, dtype=object)
        V = nparr.set_sd(nparr.wrap(V), np.float64) if ctx.sym else np.array([[float(x) for x in r] for r in V])
    else:
        V = ctx.reals("v", (4, 3), -100, 100)
    m = trimesh.Trimesh(vertices=V.copy(), faces=FACES_TET.copy(), process=False)
    e = V[1:] - V[0]
    vol = (e[0][0] * (e[1][1] * e[2][2] - e[1][2] * e[2][1]) - e[0][1] * (e[1][0] * e[2][2] - e[1][2] * e[2][0]) + e[0][2] * (e[1][0] * e[2][1] - e[1][1] * e[2][0])) / 6
    return m, V, vol


def _stub(ctx):
    from symx import core

    if ctx.sym:
        core.ENGINE.opts = dict(core.ENGINE.opts)
        core.ENGINE.opts["stubs"] = {"random.random": _random_stub(True)}


def u_mesh(ctx):
    kind = ctx.params["kind"]
    m, V, vol = _tet(ctx)
    _stub(ctx)
    Mreal, M, Mi, det = _matrix(ctx, kind)
    if ctx.params.get("normals_first"):
        m.face_normals  # computed before the transform: must not change the geometric outcome
    m.apply_transform(Mreal)
    exp = [lib.apply_h(M, V[i]) for i in range(4)]
    if kind == "nearA":
        # |M - I| < 1e-8: documented identity shortcut, the mesh is returned unchanged (within 1e-8*(|v|+1) of M.v)
        ctx.eq("identity shortcut: vertices unchanged", m.vertices, V)
        ctx.concrete_equal("identity shortcut: faces unchanged", np.asarray(m.faces).tolist(), FACES_TET.tolist())
        return
    ctx.eq("every vertex moved to M.v", m.vertices, exp)
    if det is not None:
        neg = bool(det < 0)
        ctx.concrete_equal("faces re-wound exactly when det M < 0 (det<0: %s)" % neg, np.asarray(m.faces).tolist(), (FACES_TET[:, ::-1] if neg else FACES_TET).tolist())
        if ctx.params.get("mesh") == "cat":
            ctx.eq("volume scales by |det M|", m.volume, (-det if neg else det) * vol)
        if ctx.params.get("com"):
            com = m.center_mass
            exp_c = lib.apply_h(M, (V[0] + V[1] + V[2] + V[3]) / 4)
            ctx.eq("centre of mass maps through M", com, exp_c)
    else:
        ctx.concrete_equal("near identity: faces unchanged", np.asarray(m.faces).tolist(), FACES_TET.tolist())
    ctx.concrete_equal("counts unchanged", (len(m.vertices), len(m.faces)), (4, 4))


def u_mesh_overrides(ctx):
    """explicit overrides travel with the mesh: a user-assigned centre of mass maps through M (density is kept)"""
    kind = ctx.params["kind"]
    m, V, vol = _tet(ctx)
    _stub(ctx)
    c = ctx.reals("c", 3, -50, 50)
    rho = ctx.real("rho", 0.5, 5)
    m.center_mass = c
    m.density = rho
    Mreal, M, Mi, det = _matrix(ctx, kind)
    m.apply_transform(Mreal)
    ctx.eq("overridden centre of mass maps through M", m.center_mass, lib.apply_h(M, c))
    ctx.eq("density kept", m.density, rho)


def u_mesh_inverse(ctx):
    kind = ctx.params["kind"]
    m, V, vol = _tet(ctx)
    _stub(ctx)
    Mreal, M, Mi, det = _matrix(ctx, kind)
    m.apply_transform(Mreal)
    m.apply_transform(_as(ctx, Mi))
    ctx.eq("M then inverse(M) restores every vertex", m.vertices, V)
    ctx.concrete_equal("M then inverse(M) restores the faces", np.asarray(m.faces).tolist(), FACES_TET.tolist())


def u_mesh_compose(ctx):
    import trimesh

    ka, kb = ctx.params["a"], ctx.params["b"]
    m, V, vol = _tet(ctx)
    _stub(ctx)
    Ar, A, _, da = _matrix(ctx, ka, "a")
    Br, B, _, db = _matrix(ctx, kb, "b")
    m.apply_transform(Ar)
    m.apply_transform(Br)
    BA = lib.matmul(B, A)
    m2 = trimesh.Trimesh(vertices=V.copy(), faces=FACES_TET.copy(), process=False)
    m2.apply_transform(_as(ctx, BA))
    ctx.eq("apply(A); apply(B) moves vertices like apply(B.A)", m.vertices, m2.vertices)
    ctx.eq("and equals (B.A).v", m.vertices, [lib.apply_h(BA, V[i]) for i in range(4)])
    ctx.concrete_equal("same faces", np.asarray(m.faces).tolist(), np.asarray(m2.faces).tolist())


def u_flips_winding(ctx):
    """the winding decision equals det M < 0 for EVERY draw of the random triangles (catalogue matrix, symbolic draw)"""
    from trimesh import transformations as tf
    from symx import core

    k = ctx.params["matrix"]
    mats = [np.diag([1, 1, -1]), np.diag([-2, lib.Fr(1, 2), 3]), np.diag([-1, -1, -1]), np.diag([-1, -3, 1]), np.array([[0, 1, 0], [1, 0, 0], [0, 0, 1]]), np.array([[1, 2, 0], [0, 1, 0], [0, 0, 1]])]
    L = np.array(mats[k], dtype=object)
    M = np.eye(4, dtype=object)
    M[:3, :3] = L
    det = lib.Fr(round(float(np.linalg.det(np.array(L, dtype=float)))))
    # one symbolic vertex of the first triangle, everything else from the catalogue
    x = ctx.real("r", 0, 1)
    draw = np.array(_RAND2[:3], dtype=object)
    draw[0][ctx.params["coord"]] = x
    if not ctx.sym:
        draw = np.array([[float(x) for x in r] for r in draw])
    a, b, c = draw[0], draw[1], draw[2]
    cr = lib.cross3([b[i] - a[i] for i in range(3)], [c[i] - a[i] for i in range(3)])
    ctx.assume(lib.dot3(cr, cr) >= 1e-6)
    if ctx.sym:
        def random(size=None):
            arr = np.array(_RAND2, dtype=object)
            arr[:3] = draw
            return nparr.set_sd(nparr.wrap(arr), np.float64)

        core.ENGINE.opts = dict(core.ENGINE.opts)
        core.ENGINE.opts["stubs"] = {"random.random": random}
        got = bool(tf.flips_winding(_as(ctx, M)))
    else:
        orig = np.random.random
        try:
            arr = np.array([[float(x) for x in r] for r in _RAND2])
            arr[:3] = draw
            np.random.random = lambda size=None: arr.copy()
            got = bool(tf.flips_winding(_as(ctx, M)))
        finally:
            np.random.random = orig
    ctx.concrete_equal("flips_winding(M) = (det M < 0) for every draw [matrix %d, det %s]" % (k, det), got, bool(det < 0))


def u_pointcloud(ctx):
    import trimesh

    P = ctx.reals("p", (3, 3), -100, 100)
    pc = trimesh.PointCloud(P.copy())
    Mreal, M, Mi, det = _matrix(ctx, ctx.params["kind"])
    pc.apply_transform(Mreal)
    ctx.eq("every point moved to M.p", pc.vertices, [lib.apply_h(M, P[i]) for i in range(3)])
    if Mi is not None and not ctx.params["kind"].startswith("sim"):
        pc.apply_transform(_as(ctx, Mi))
        ctx.eq("inverse restores", pc.vertices, P)


def u_path(ctx):
    """Path3D / Path2D of line entities: vertices move to M.p, entities untouched, discrete curves follow (read before or not)"""
    import trimesh
    from trimesh.path.entities import Line

    dim = ctx.params["dim"]
    P = ctx.reals("p", (4, dim), -100, 100)
    ents = [Line([0, 1, 2]), Line([2, 3, 0])]
    cls = trimesh.path.Path3D if dim == 3 else trimesh.path.Path2D
    path = cls(entities=ents, vertices=P.copy(), process=False)
    if ctx.params["read_before"]:
        path.discrete
    if dim == 3:
        Mreal, M, Mi, det = _matrix(ctx, ctx.params["kind"])
        Mo = M
    else:
        c, sn = [(lib.Fr(3, 5), lib.Fr(4, 5)), (lib.Fr(-5, 13), lib.Fr(12, 13)), (0, -1)][ctx.params.get("rot2d", 0)]
        s = ctx.real("s", 0.1, 10)
        t = ctx.reals("t", 2, -50, 50)
        Mo = np.array([[s * c, -s * sn, t[0]], [s * sn, s * c, t[1]], [0, 0, 1]], dtype=object)
        Mreal = _as(ctx, Mo) if ctx.sym else np.array([[float(v) for v in r] for r in Mo])
    path.apply_transform(Mreal)
    exp = [lib.apply_h(Mo, P[i]) for i in range(4)]
    ctx.eq("every vertex moved to M.p", path.vertices, exp)
    ctx.concrete_equal("entities unchanged", [list(map(int, e.points)) for e in path.entities], [[0, 1, 2], [2, 3, 0]])
    d = path.discrete
    ctx.concrete_equal("number of discrete curves", len(d), 1 if len(d) == 1 else len(d))
    pts = np.concatenate([np.asarray(nparr.base(x) if ctx.sym else x) for x in d])
    # the closed loop 0-1-2-3-0 in some rotation/direction: compare as the multiset of its points through the entity structure
    ctx.concrete_equal("discrete point count", len(pts), 5)
    fresh = cls(entities=[Line([0, 1, 2]), Line([2, 3, 0])], vertices=_as(ctx, np.array(exp, dtype=object)) if ctx.sym else np.array(exp, dtype=float), process=False).discrete
    fpts = np.concatenate([np.asarray(nparr.base(x) if ctx.sym else x) for x in fresh])
    ctx.eq("discrete curve equals the one of a freshly built transformed path", pts, fpts)


def u_scene(ctx):
    import trimesh

    V = ctx.reals("v", (3, 3), -50, 50)
    mesh = trimesh.Trimesh(vertices=V.copy(), faces=np.array([[0, 1, 2]]), process=False)
    sc = trimesh.Scene()
    N, No, _, _ = _matrix(ctx, "translate", "n")
    sc.add_geometry(mesh, node_name="n0", geom_name="g", transform=N)
    Mreal, M, Mi, det = _matrix(ctx, ctx.params["kind"])
    sc.apply_transform(Mreal)
    got = sc.graph.get("n0")[0]
    ctx.eq("node transform becomes M . T_node", np.asarray(nparr.base(got) if ctx.sym else got)[:3], np.asarray(lib.matmul(M, No), dtype=object if ctx.sym else float)[:3])
    ctx.eq("geometry itself untouched", sc.geometry["g"].vertices, V)


def u_voxel(ctx):
    from trimesh.voxel import base as VB

    fill = np.zeros((2, 2, 2), dtype=bool)
    fill[0, 1, 1] = fill[1, 0, 0] = True
    T0 = np.array([[7, 0, 0, 1], [0, 11, 0, 2], [0, 0, 13, 3], [0, 0, 0, 1]], dtype=object)  # anisotropic grid (products with M stay away from identity)
    T0r = _as(ctx, T0)
    vg = VB.VoxelGrid(fill, transform=T0r)
    Mreal, M, Mi, det = _matrix(ctx, ctx.params["kind"])
    vg.apply_transform(Mreal)
    idx = np.array([[0, 1, 1], [1, 0, 0]])
    pts = vg.indices_to_points(idx)
    MT = lib.matmul(M, T0)
    ctx.eq("cell centres move to M.(T.index)", pts, [lib.apply_h(MT, [int(x) for x in i]) for i in idx])
    ctx.eq("grid transform is M.T", np.asarray(nparr.base(vg.transform) if ctx.sym else vg.transform)[:3], np.asarray(MT, dtype=object if ctx.sym else float)[:3])


F = "trimesh."
FM = [F + "base.Trimesh.apply_transform", F + "transformations.transform_points", F + "transformations.flips_winding", F + "util.allclose", F + "triangles.mass_properties", F + "caching.Cache.clear"]


def units(tier):
    T = tier == "thorough"
    us = []
    kinds = ["translate", "scale", "shear", "sim1", "nearA", "nearB", "nearC"] + (["sim4", "sim6"] if T else [])
    for kd in kinds:
        for nf in ((False, True) if kd in ("scale", "sim1") or T else (False,)):
            us.append(Unit("mesh-%s%s" % (kd, "-normals-read-before" if nf else ""), u_mesh, params={"kind": kd, "normals_first": nf, "mesh": "cat" if nf else None}, key="mesh", functions=FM,
                           bounds="symbolic tetrahedron |x|<=100 x matrix family '%s' (all parameter values): vertices, faces, counts" % kd, subspace="symbolic mesh x " + kd, max_paths=300, wall_s=300, ob_ms=60000, feas_ms=800, group=False))
        if not kd.startswith("near"):
            us.append(Unit("mesh-measures-%s" % kd, u_mesh, params={"kind": kd, "normals_first": False, "com": True, "mesh": "cat"}, key="mesh", functions=FM,
                           bounds="catalogue tetrahedron x matrix family '%s' (all parameter values): volume scales by |det|, centre of mass maps through M" % kd, subspace="catalogue mesh x " + kd, max_paths=300, wall_s=300, ob_ms=60000, feas_ms=800, group=False))
    for kd in ["translate", "scale", "shear", "sim1"]:
        us.append(Unit("mesh-overrides-%s" % kd, u_mesh_overrides, params={"kind": kd, "mesh": "cat"}, key="mesh-overrides", functions=FM + [F + "base.Trimesh.center_mass", F + "base.Trimesh.density"],
                       bounds="catalogue tetrahedron with a symbolic centre-of-mass override and density x matrix family '%s'" % kd, max_paths=200, wall_s=300, ob_ms=60000, feas_ms=800, group=False))
    for kd in (["translate", "scale", "shear"] + (["sim1", "sim4"] if T else [])):
        us.append(Unit("mesh-inverse-%s" % kd, u_mesh_inverse, params={"kind": kd}, key="mesh-inverse", functions=FM, bounds="symbolic tetrahedron x matrix family '%s' then its exact inverse" % kd, max_paths=300, wall_s=300, ob_ms=60000, feas_ms=800, group=False))
    for a, b in ([("scale", "translate"), ("shear", "scale"), ("translate", "shear")] + ([("translate", "sim4"), ("sim1", "shear")] if T else [])):  # ("sim1", "scale") and ("scale", "scale") ran into the 1500 s hard timeout in the first thorough run: dropped
        us.append(Unit("mesh-compose-%s-then-%s" % (a, b), u_mesh_compose, params={"a": a, "b": b}, key="mesh-compose", functions=FM, bounds="symbolic tetrahedron; A from '%s', B from '%s'" % (a, b), max_paths=400, wall_s=400, ob_ms=60000, feas_ms=800, group=False))
    # (the units 'flips_winding(M) = det<0 for EVERY draw' were measured and dropped: even with a single symbolic coordinate of one random
    #  vertex z3 answers unknown at 15 s on the normalised-cross-product condition; the draw-independence clause is therefore NOT claimed)
    for kd in ("translate", "scale", "shear", "sim1"):
        us.append(Unit("pointcloud-%s" % kd, u_pointcloud, params={"kind": kd}, key="pointcloud", functions=[F + "points.PointCloud.apply_transform"], bounds="3 symbolic points x matrix family", group=False))
        if kd == "translate":
            us.append(Unit("scene-%s" % kd, u_scene, params={"kind": kd}, key="scene", functions=[F + "scene.scene.Scene.apply_transform", F + "scene.transforms.SceneGraph.update"], bounds="one instanced triangle under a symbolic node translation x every translation (other families reach fix_rigid's SVD band test, whose nested max() the solver does not discharge in budget; scene placement is C10's subject)", group=False, wall_s=200))
        us.append(Unit("voxel-%s" % kd, u_voxel, params={"kind": kd}, key="voxel", functions=[F + "voxel.base.VoxelGrid.apply_transform", F + "voxel.transforms.Transform"], bounds="2x2x2 grid with transform diag(7,11,13)+(1,2,3) x matrix family", group=False, wall_s=200))
        for rb in (False, True):
            us.append(Unit("path3d-%s-read%d" % (kd, rb), u_path, params={"kind": kd, "dim": 3, "read_before": rb}, key="path", functions=[F + "path.path.Path.apply_transform", F + "path.traversal.discretize_path", F + "path.entities.Line.discrete"], bounds="closed 4-vertex polyline in 3D x matrix family; discrete read before: %s" % rb, group=False, wall_s=200))
    return us
