"""C10 -- scene-level quantities equal explicit placement of every instance."""
import functools
from fractions import Fraction

import numpy as np

from symx import lib, nparr
from symx.harness import Unit as _Unit


def Unit(*a, **k):
    k.setdefault("group", k.pop("linear", False))
    k.setdefault("feas_ms", 800)
    k.setdefault("ob_ms", 30000)
    return _Unit(*a, **k)


META = {
    "level": "other",
    "explanation": "A real Scene (geometry instanced twice through a nested node, a second geometry, a node without geometry, a geometry without node) is built with SYMBOLIC edge matrices "
    "(translations, the similarity group x -> s*x+t, catalogue rotations with symbolic translation) and its quantities are compared by z3 - for all parameter values - with the explicit placement "
    "W(node).v of every vertex, W being the product of the edge matrices along the path (dictionary oracle). Derived scenes (copy, scaled uniformly and per axis, rezero, apply_transform, +, subscene) "
    "are compared the same way and the source scene is compared with its snapshot afterwards.",
    "assumptions": [
        "geometries: catalogue tetrahedron (1,1,2 right corner, rational face areas) and a flat two-triangle strip with exact rational coordinates",
        "edge scale factors lie in small intervals around distinct primes (no product within 1e-4 of rigid: SceneGraph.update's fix_rigid SVD band is excluded), |t| <= 10",
        "scale factors for scaled() in [1/4, 4] minus the documented |k-1| <= 2e-5 'allclose' shortcut band",
        "convex_hull (qhull), cameras and lights not claimed",
    ],
}

TET_V = [(0, 0, 0), (1, 0, 0), (0, 1, 0), (0, 0, 2)]
TET_F = [[0, 2, 1], [0, 1, 3], [1, 2, 3], [0, 3, 2]]
TET_AREA = Fraction(1, 2) + 1 + 1 + Fraction(3, 2)
TET_VOL = Fraction(1, 3)
STRIP_V = [(0, 0, 0), (3, 0, 0), (0, 4, 0), (3, 4, 0)]
STRIP_F = [[0, 1, 2], [2, 1, 3]]
STRIP_AREA = Fraction(12)


def _as(ctx, a):
    a = np.array(a, dtype=object)
    return nparr.set_sd(nparr.wrap(a), np.float64) if ctx.sym else np.array([[float(x) for x in r] for r in a])


def _mesh(ctx, V, F):
    import trimesh

    return trimesh.Trimesh(vertices=_as(ctx, V), faces=np.array(F), process=False)


def _M(ctx, k, kind):
    """(matrix for the real code, exact object matrix, linear scale)"""
    M = np.zeros((4, 4), dtype=object)
    M[3, 3] = 1
    # translation ranges keep the three instances apart (n1 low, n3 high) so that "which instance is extreme" does not multiply paths; within them every value is covered
    lo_t, hi_t = {0: (-10, -8), 1: (0.5, 1.5), 2: (8, 10)}.get(k, (-10, 10))
    if ctx.params.get("concrete_t"):
        t = [(2 * Fraction(lo_t) + Fraction(hi_t)) / 3 + Fraction(i, 8) for i in range(3)]  # catalogue offsets inside the same ranges
    else:
        t = [ctx.real("t%d_%d" % (k, i), lo_t, hi_t) for i in range(3)]
    s = 1
    if kind == "t":
        R = np.eye(3, dtype=object)
    elif kind == "st":
        lo = [2, 3, 5, 7, 11][k]
        s = ctx.real("s%d" % k, lo, lo * 1.004)
        R = np.eye(3, dtype=object) * s
    elif kind.startswith("rot"):
        R = np.array(lib.ROTATIONS[int(kind[3:])], dtype=object)
    elif kind.startswith("srot"):
        lo = [2, 3, 5, 7, 11][k]
        s = ctx.real("s%d" % k, lo, lo * 1.004)
        R = np.array(lib.ROTATIONS[int(kind[4:])], dtype=object) * s
    for i in range(3):
        for j in range(3):
            M[i, j] = R[i][j]
        M[i, 3] = t[i]
    Mreal = nparr.set_sd(nparr.wrap(M.copy()), np.float64) if ctx.sym else np.array([[float(x) for x in r] for r in M])
    return Mreal, M, s


def _c04():
    import importlib.util
    import os
    import sys

    if "harness_C04" not in sys.modules:
        spec = importlib.util.spec_from_file_location("harness_C04", os.path.join(os.path.dirname(os.path.abspath(__file__)), "C04_transforms.py"))
        mod = importlib.util.module_from_spec(spec)
        sys.modules["harness_C04"] = mod
        spec.loader.exec_module(mod)
    return sys.modules["harness_C04"]


def _build(ctx):
    """scene + oracle {node: (W, scale, geometry name)}"""
    import trimesh

    _c04()._stub(ctx)  # flips_winding's random triangles -> small rationals (contract: any non-degenerate triangles)

    kinds = ctx.params["kinds"]
    tet, strip = _mesh(ctx, TET_V, TET_F), _mesh(ctx, STRIP_V, STRIP_F)
    sc = trimesh.Scene()
    M1r, M1, s1 = _M(ctx, 0, kinds[0])
    M2r, M2, s2 = _M(ctx, 1, kinds[1])
    M3r, M3, s3 = _M(ctx, 2, kinds[2])
    frame = ctx.params.get("frame")
    if frame:
        # a frame without geometry, rotated, on top of n1: the local edges below it are pure translations although the instances are rotated in the world
        Fr, Fm, fs = _M(ctx, 4, frame)
        sc.graph.update(frame_to="f", matrix=Fr)
        sc.add_geometry(tet, node_name="n1", geom_name="tet", parent_node_name="f", transform=M1r)
    else:
        sc.add_geometry(tet, node_name="n1", geom_name="tet", transform=M1r)
    # a second INSTANCE of the same geometry (add_geometry would register a renamed copy 'tet_1' instead)
    sc.graph.update(frame_to="n2", frame_from="n1", matrix=M2r, geometry="tet")
    sc.add_geometry(strip, node_name="n3", geom_name="strip", transform=M3r)
    if frame:
        M6 = np.eye(4, dtype=object)
        M6[0, 3], M6[1, 3], M6[2, 3] = 30, -20, 15
        sc.graph.update(frame_to="n4", matrix=_as(ctx, M6), geometry="tet")
    if ctx.params.get("extras", True):
        M4r, M4, s4 = _M(ctx, 3, "t")
        sc.graph.update(frame_to="empty", frame_from="n3", matrix=M4r)
        sc.geometry["orphan"] = _mesh(ctx, [(100, 100, 100), (101, 100, 100), (100, 101, 100)], [[0, 1, 2]])
    ref = {"n1": (M1, s1, "tet"), "n2": (lib.matmul(M1, M2), s1 * s2, "tet"), "n3": (M3, s3, "strip")}
    if frame:
        ref["n1"] = (lib.matmul(Fm, M1), fs * s1, "tet")
        ref["n2"] = (lib.matmul(Fm, lib.matmul(M1, M2)), fs * s1 * s2, "tet")
        ref["n4"] = (M6, 1, "tet")
    return sc, ref


GEO = {"tet": (TET_V, TET_F, TET_AREA, TET_VOL), "strip": (STRIP_V, STRIP_F, STRIP_AREA, 0)}


def _placed(ref, pre=None):
    """{node: (n,3) object array of exact placed vertices}; `pre` = extra matrix applied on the left"""
    out = {}
    for n, (W, s, g) in ref.items():
        Wn = W if pre is None else lib.matmul(pre, W)
        out[n] = np.array([lib.apply_h(Wn, list(v)) for v in GEO[g][0]], dtype=object)
    return out


def _minmax(ctx, rows):
    lo, hi = [], []
    for c in range(3):
        col = [r[c] for r in rows]
        lo.append(functools.reduce(nparr.e_min if ctx.sym else min, col))
        hi.append(functools.reduce(nparr.e_max if ctx.sym else max, col))
    return lo, hi


def _verts(ctx, m):
    return np.asarray(nparr.base(m.vertices) if ctx.sym else m.vertices, dtype=object if ctx.sym else float)


def _check_scene(ctx, sc, placed, tag, quantities=True, scale_of=None):
    """every instance of `sc` sits at `placed[node]`"""
    nodes = sorted(sc.graph.nodes_geometry)
    ctx.concrete_equal(tag + ": nodes with geometry", nodes, sorted(placed))
    for n in nodes:
        if n not in placed:
            continue
        T, g = sc.graph[n]
        geom = sc.geometry[g]
        Tn = np.asarray(nparr.base(T) if ctx.sym else T, dtype=object if ctx.sym else float)
        got = [lib.apply_h(Tn, list(v)) for v in _verts(ctx, geom)]
        ctx.eq(tag + ": instance %s placed where the source placement says" % n, np.array(got, dtype=object if ctx.sym else float), placed[n])
    if not quantities:
        return
    allrows = [r for n in sorted(placed) for r in placed[n]]
    lo, hi = _minmax(ctx, allrows)
    ctx.eq(tag + ": bounds", sc.bounds, [lo, hi])
    ctx.eq(tag + ": extents", sc.extents, [h - l for l, h in zip(lo, hi)])
    ctx.eq(tag + ": centroid", sc.centroid, [(h + l) / 2 for l, h in zip(lo, hi)])


def _tri_check(ctx, sc, ref, placed, tag):
    tris = np.asarray(nparr.base(sc.triangles) if ctx.sym else sc.triangles, dtype=object if ctx.sym else float)
    tn = list(sc.triangles_node)
    ctx.concrete_equal(tag + ": triangle count", len(tris), sum(len(GEO[ref[n][2]][1]) for n in ref))
    for n in sorted(ref):
        F = np.array(GEO[ref[n][2]][1])
        idx = [i for i, x in enumerate(tn) if x == n]
        ctx.concrete_equal(tag + ": triangles_node block of %s" % n, len(idx), len(F))
        if len(idx) == len(F):
            ctx.eq(tag + ": triangles of %s" % n, tris[idx].reshape(-1), placed[n][F].reshape(-1))


def _dump_check(ctx, sc, ref, placed, tag):
    d = sc.dump()
    ctx.concrete_equal(tag + ": dump() has one geometry per instance", sorted(x.metadata["node"] for x in d), sorted(ref))
    for x in d:
        n = x.metadata["node"]
        ctx.eq(tag + ": dump()[%s] vertices" % n, _verts(ctx, x), placed[n])
        F = np.asarray(x.faces)
        F0 = np.array(GEO[ref[n][2]][1])
        # a mirrored placement may reverse the winding; these families have det > 0
        ctx.concrete_equal(tag + ": dump()[%s] faces" % n, F.tolist(), F0.tolist())
    m = sc.to_mesh()
    mt = _verts(ctx, m)[np.asarray(m.faces)]
    exp = np.concatenate([placed[x.metadata["node"]][np.array(GEO[ref[x.metadata["node"]][2]][1])] for x in d])
    ctx.eq(tag + ": to_mesh() triangles = dumped instances in order", mt.reshape(-1), exp.reshape(-1))


def u_quantities(ctx):
    sc, ref = _build(ctx)
    placed = _placed(ref)
    _check_scene(ctx, sc, placed, "scene")
    _tri_check(ctx, sc, ref, placed, "scene")
    _dump_check(ctx, sc, ref, placed, "scene")
    area = sum(ref[n][1] ** 2 * GEO[ref[n][2]][2] for n in ref)
    vol = sum(ref[n][1] ** 3 * GEO[ref[n][2]][3] for n in ref)
    ctx.eq("area = sum of the placed instances' areas", sc.area, area)
    ctx.eq("volume = sum of the placed instances' volumes", sc.volume, vol)


def u_chain(ctx):
    """world -I-> n0 -M1-> n1 -M2-> n2 with geometry on every node; the order in which nodes are first read is the solver's choice"""
    import itertools

    import trimesh

    _c04()._stub(ctx)
    kinds = ctx.params["kinds"]
    tet = _mesh(ctx, TET_V, TET_F)
    sc = trimesh.Scene()
    M1r, M1, s1 = _M(ctx, 0, kinds[0])
    M2r, M2, s2 = _M(ctx, 1, kinds[1])
    sc.add_geometry(tet, node_name="n0", geom_name="tet", transform=np.eye(4))
    sc.graph.update(frame_to="n1", frame_from="n0", matrix=M1r, geometry="tet")
    sc.graph.update(frame_to="n2", frame_from="n1", matrix=M2r, geometry="tet")
    ref = {"n0": (np.eye(4, dtype=object), 1, "tet"), "n1": (M1, s1, "tet"), "n2": (lib.matmul(M1, M2), s1 * s2, "tet")}
    placed = _placed(ref)
    order = list(itertools.permutations(["n0", "n1", "n2"]))[ctx.choice("order", 6)]
    for n in order:
        T, g = sc.graph[n]
        Tn = np.asarray(nparr.base(T) if ctx.sym else T, dtype=object if ctx.sym else float)
        ctx.eq("first read of %s (read order %s)" % (n, ">".join(order)), np.array([lib.apply_h(Tn, list(v)) for v in TET_V], dtype=object if ctx.sym else float), placed[n])
    _check_scene(ctx, sc, placed, "chain (read order %s)" % ">".join(order))
    _tri_check(ctx, sc, ref, placed, "chain")


def _snapshot(ctx, sc):
    snap = {}
    for n in sorted(sc.graph.nodes):
        if n == sc.graph.base_frame:
            continue
        T, g = sc.graph[n]
        snap[n] = (np.asarray(nparr.base(T) if ctx.sym else T, dtype=object if ctx.sym else float).copy(), g)
    geo = {k: (_verts(ctx, g).copy(), np.asarray(g.faces).copy()) for k, g in sc.geometry.items()}
    return snap, geo, sc.graph.base_frame


def _unchanged(ctx, sc, snap, tag):
    _unchanged_once(ctx, sc, snap, tag)
    # an ordinary edit of the source (a new, unrelated frame) invalidates its graph caches: damage hidden behind a stale cache shows now
    sc.graph.update(frame_to="__probe", matrix=np.eye(4))
    _unchanged_once(ctx, sc, snap, tag + " (after a later unrelated edit of the source)", ignore=("__probe",), light=True)


def _unchanged_once(ctx, sc, snap, tag, ignore=(), light=False):
    s2 = _snapshot(ctx, sc)
    for k in ignore:
        s2[0].pop(k, None)
    try:
        ng = sorted(sc.graph.nodes_geometry)
    except Exception as e:  # noqa
        ng = "raised %s" % type(e).__name__
    ctx.concrete_equal(tag + ": source nodes with geometry unchanged", ng, sorted(n for n, (T, g) in snap[0].items() if g is not None))
    ctx.concrete_equal(tag + ": source nodes / base frame / geometry names unchanged", (sorted(s2[0]), s2[2], sorted(s2[1])), (sorted(snap[0]), snap[2], sorted(snap[1])))
    for n in snap[0]:
        if n in s2[0]:
            if not light:
                ctx.eq(tag + ": source transform of %s unchanged" % n, s2[0][n][0], snap[0][n][0])
            ctx.concrete_equal(tag + ": source geometry of %s unchanged" % n, s2[0][n][1], snap[0][n][1])
    for k in snap[1]:
        if k in s2[1]:
            if not light:
                ctx.eq(tag + ": source geometry %s vertices unchanged" % k, s2[1][k][0], snap[1][k][0])


def u_derived(ctx):
    import trimesh

    sc, ref = _build(ctx)
    if ctx.params.get("read_first"):
        sc.bounds, sc.triangles, sc.area
    snap = _snapshot(ctx, sc)
    op = ctx.params["op"]
    placed = _placed(ref)
    if op == "copy":
        out = sc.copy()
        _check_scene(ctx, out, placed, "copy")
        # editing the copy must not reach the source
        out.geometry["tet"].vertices[0, 0] = ctx.real("edit", -5, 5)
        out.graph.update(frame_to="n3", matrix=np.eye(4))
        out.graph.update(frame_to="n2", geometry="strip")
        out.delete_geometry("strip")
    elif op == "scaled":
        k = ctx.real("k", 0.25, 4)
        ctx.assume(lib.l_or(k < 1 - 2e-5, k > 1 + 2e-5))
        out = sc.scaled(k)
        S = np.diag([k, k, k, 1]).astype(object)
        _check_scene(ctx, out, _placed(ref, S), "scaled(k)")
    elif op == "scaled3":
        ks = [ctx.real("k%d" % i, [0.25, 1.5, 2.5][i], [0.8, 2.2, 4][i]) for i in range(3)]
        out = sc.scaled(list(ks) if not ctx.sym else nparr.set_sd(nparr.wrap(np.array(ks, dtype=object)), np.float64))
        S = np.diag(ks + [1]).astype(object)
        _check_scene(ctx, out, _placed(ref, S), "scaled([kx,ky,kz])", quantities=False)
    elif op == "rezero":
        out = sc.copy()
        allrows = [r for n in sorted(placed) for r in placed[n]]
        lo, hi = _minmax(ctx, allrows)
        c = [(h + l) / 2 for l, h in zip(lo, hi)]
        # the documented 'already centred' shortcut (np.allclose(centroid, 0)) is excluded
        ctx.assume(lib.l_or(*[lib.l_or(x > 1e-3, x < -1e-3) for x in c]))
        out.rezero()
        P = np.eye(4, dtype=object)
        for i in range(3):
            P[i, 3] = -c[i]
        _check_scene(ctx, out, _placed(ref, P), "rezero")
        ctx.eq("rezero: centroid is the origin", out.centroid, [0, 0, 0])
        sc = None
    elif op == "apply_transform":
        out = sc.copy()
        Mr, M, s = _M(ctx, 4, ctx.params.get("mkind", "st"))
        out.apply_transform(Mr)
        _check_scene(ctx, out, _placed(ref, M), "apply_transform")
    elif op == "add":
        other = trimesh.Scene()
        M5r, M5, s5 = _M(ctx, 4, "st")
        other.add_geometry(_mesh(ctx, STRIP_V, STRIP_F), node_name="n3", geom_name="strip", transform=M5r)
        # more clashing / look-alike names, one of them nested below a clashing node
        P1 = np.eye(4, dtype=object)
        P1[0, 3], P1[1, 3] = 40, 2
        P2 = np.eye(4, dtype=object)
        P2[2, 3] = -30
        P3 = np.eye(4, dtype=object)
        P3[1, 3] = 55
        other.add_geometry(_mesh(ctx, TET_V, TET_F), node_name="n1", geom_name="tet", transform=_as(ctx, P1))
        other.add_geometry(_mesh(ctx, TET_V, TET_F), node_name="sub", geom_name="tet", parent_node_name="n1", transform=_as(ctx, P2))
        other.add_geometry(_mesh(ctx, TET_V, TET_F), node_name="n1_1", geom_name="tet", transform=_as(ctx, P3))
        extra = {"other-n1": (P1, TET_V), "other-sub": (lib.matmul(P1, P2), TET_V), "other-n1_1": (P3, TET_V)}
        osnap = _snapshot(ctx, other)
        out = sc + other
        # node / geometry names clash: both must survive (possibly renamed); compare the multiset of placements through dump()
        d = out.dump()
        ctx.concrete_equal("sum: one dumped geometry per instance of both scenes", len(d), 7)
        exp = dict(placed)
        exp["other-n3"] = np.array([lib.apply_h(M5, list(v)) for v in STRIP_V], dtype=object)
        for k, (W, VV) in extra.items():
            exp[k] = np.array([lib.apply_h(W, list(v)) for v in VV], dtype=object)
        left = dict(exp)
        for x in d:
            v = _verts(ctx, x)
            hit = None
            for key, pv in left.items():
                if len(pv) == len(v) and _same(ctx, v, pv):
                    hit = key
                    break
            if hit is not None:
                left.pop(hit)
        ctx.concrete_equal("sum: every instance of both scenes is present at its placement", sorted(left), [])
        _unchanged(ctx, other, osnap, "sum(other)")
    elif op == "subscene":
        out = sc.subscene("n1")
        # frame n1 becomes the base: n1's geometry at identity, n2 at M2
        M2 = lib.matmul(_inv(ref["n1"][0]), ref["n2"][0])
        sub = {"n2": np.array([lib.apply_h(M2, list(v)) for v in TET_V], dtype=object)}
        nodes = sorted(out.graph.nodes_geometry)
        ctx.concrete_equal("subscene: n2 is in the subscene", "n2" in nodes, True)
        if "n2" in nodes:
            T, g = out.graph["n2"]
            Tn = np.asarray(nparr.base(T) if ctx.sym else T, dtype=object if ctx.sym else float)
            ctx.eq("subscene: n2 relative to n1", np.array([lib.apply_h(Tn, list(v)) for v in _verts(ctx, out.geometry[g])], dtype=object if ctx.sym else float), sub["n2"])
        ctx.concrete_equal("subscene: nothing outside the subtree", [n for n in nodes if n not in ("n1", "n2")], [])
    if sc is not None:
        _unchanged(ctx, sc, snap, op)


def _same(ctx, a, b):
    """placement equality used only to MATCH instances (then decided exactly by ctx.eq below)"""
    if not ctx.sym:
        return bool(np.allclose(np.asarray(a, dtype=float), np.asarray(b, dtype=float), atol=1e-6))
    from symx import core

    conj = []
    for x, y in zip(np.asarray(a, dtype=object).reshape(-1), np.asarray(b, dtype=object).reshape(-1)):
        conj.append(core._term(x) == core._term(y))
    import z3

    # valid for ALL parameter values on this path?  (negation unsat)
    r = core.ENGINE.check_sat([z3.Not(z3.And(*conj))], timeout_ms=20000)
    return str(r) == "unsat"


def _inv(M):
    """exact inverse of [sR | t] with R a rotation: R^T/s, -R^T t/s"""
    M = np.asarray(M, dtype=object)
    A = M[:3, :3]
    s2 = A[0, 0] * A[0, 0] + A[1, 0] * A[1, 0] + A[2, 0] * A[2, 0]
    out = np.zeros((4, 4), dtype=object)
    for i in range(3):
        for j in range(3):
            out[i, j] = A[j, i] / s2
    for i in range(3):
        out[i, 3] = -sum(out[i, j] * M[j, 3] for j in range(3))
    out[3, 3] = 1
    return out


F = "trimesh.scene.scene.Scene."
FUN = [F + x for x in ("bounds_corners", "bounds", "extents", "centroid", "area", "volume", "triangles", "triangles_node", "dump", "to_mesh", "copy", "scaled", "rezero", "apply_transform", "__add__", "subscene", "add_geometry")] + [
    "trimesh.scene.scene.append_scenes", "trimesh.scene.transforms.SceneGraph", "trimesh.util.concatenate", "trimesh.transformations.transform_points"]

FAMILIES = {"t": ("t", "t", "t"), "st": ("st", "st", "st"), "rot": ("rot1", "rot3", "rot5"), "srot": ("srot1", "st", "rot2")}


def units(tier):
    T = tier == "thorough"
    us = []
    for fam, kinds in FAMILIES.items():
        us.append(Unit("quantities-%s" % fam, u_quantities, params={"kinds": kinds}, key="quantities/%s" % fam, functions=FUN,
                       bounds="forest world->n1->n2 (tet twice), world->n3 (strip), node without geometry, geometry without node; edge matrices of family '%s', all parameter values" % fam, max_paths=60, wall_s=400, linear=fam in ("t", "rot")))
    for op in ("copy", "scaled", "scaled3", "rezero", "apply_transform", "add", "subscene"):
        for fam in (("t", "st", "rot") if not T else tuple(FAMILIES)):
            if op in ("scaled3",) and fam == "st" and not T:
                continue
            us.append(Unit("%s-%s" % (op, fam), u_derived, params={"kinds": FAMILIES[fam], "op": op, "extras": op not in ("add",)}, key="%s/%s" % (op, fam), functions=FUN,
                           bounds="same forest, operation '%s', edge family '%s', all parameter values" % (op, fam), max_paths=80, wall_s=400, linear=fam in ("t", "rot") and op in ("copy", "rezero", "subscene", "add")))
    for op in ("scaled3", "scaled", "copy"):
        us.append(Unit("%s-frame" % op, u_derived, params={"kinds": FAMILIES["t"], "op": op, "frame": "rot1", "concrete_t": True}, key="%s/frame" % op, functions=FUN,
                       bounds="tet instanced below a rotated geometry-less frame through pure translations and once at world level; operation '%s'; offsets from a catalogue, scale factors symbolic" % op, max_paths=80, wall_s=400))
    us.append(Unit("quantities-frame", u_quantities, params={"kinds": FAMILIES["t"], "frame": "rot1"}, key="quantities/frame", functions=FUN, bounds="as above: all scene quantities", max_paths=60, wall_s=400, linear=True))
    for fam in ("t", "st", "rot"):
        us.append(Unit("chain-%s" % fam, u_chain, params={"kinds": FAMILIES[fam]}, key="chain/%s" % fam, functions=FUN,
                       bounds="chain world -identity-> n0 -> n1 -> n2 (geometry on each), all 6 orders of first reads, edge family '%s'" % fam, max_paths=60, wall_s=300, linear=fam in ("t", "rot")))
    if T:
        for op in ("copy", "scaled", "apply_transform"):
            us.append(Unit("%s-st-read-first" % op, u_derived, params={"kinds": FAMILIES["st"], "op": op, "read_first": True}, key="%s/st" % op, functions=FUN, bounds="as above after reading bounds/triangles/area", max_paths=80, wall_s=400))
    return us
