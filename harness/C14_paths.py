"""C14 -- paths rebuild the same regions from segments in any order."""
import itertools

import numpy as np

from symx import lib, nparr
from symx.harness import Unit as _Unit


def Unit(*a, **k):
    k.setdefault("group", False)
    k.setdefault("feas_ms", 800)
    k.setdefault("ob_ms", 20000)
    return _Unit(*a, **k)


META = {
    "level": "other",
    "explanation": "Closed curves with symbolic coordinates are cut into Line entities: WHERE each curve is cut, the direction of every entity and the order of the entity list are solver variables resolved by forking "
    "(networkx cycle search runs on the concrete indices of each configuration). z3 decides, for all coordinate values, that every recovered loop has the exact shoelace area and perimeter of its input polygon; the "
    "recovered index sequence must be a rotation / reversal of the input loop. Values that trimesh obtains through shapely (polygons, nesting, area, length) are compared on catalogue coordinates for every configuration, "
    "before and after similarity transforms with reads in between.",
    "assumptions": [
        "curves: an axis-aligned rectangle (symbolic width / height / offset) with a triangle nested inside it and a disjoint quadrilateral; line entities only",
        "entity orders: every rotation of the list and its reversal (not all permutations); every cut pattern with up to 4 entities per rectangle; every direction assignment",
        "shapely-backed values (polygons_full, area, length, enclosure) on catalogue coordinates only (shapely realises floats); arcs not claimed (arc_center's nested square roots come back unknown); DXF / SVG / dict round trips (text codecs) not claimed",
    ],
}


def _as(ctx, a):
    a = np.array(a, dtype=object)
    return nparr.set_sd(nparr.wrap(a), np.float64) if ctx.sym else np.array(a.tolist(), dtype=float)


def _obj(ctx, a):
    return np.asarray(nparr.base(a) if ctx.sym and isinstance(a, np.ndarray) else a, dtype=object if ctx.sym else float)


def _split(ctx, loop, tag, max_entities=4):
    """cut the closed index loop into polylines at solver-chosen vertices; each polyline gets a solver-chosen direction"""
    n = len(loop)
    cuts = [i for i in range(n) if i == 0 or ctx.choose_bool("%s_cut%d" % (tag, i))]
    if len(cuts) > max_entities:
        ctx.assume(False)
    ents = []
    for a, b in zip(cuts, cuts[1:] + [cuts[0] + n]):
        pts = [loop[k % n] for k in range(a, b + 1)]
        if ctx.choose_bool("%s_rev%d" % (tag, a)):
            pts = pts[::-1]
        ents.append(pts)
    return ents


def _shoelace(P):
    n = len(P)
    return sum(P[i][0] * P[(i + 1) % n][1] - P[(i + 1) % n][0] * P[i][1] for i in range(n)) / 2


def _same_cycle(seq, loop):
    seq, loop = [int(x) for x in seq], [int(x) for x in loop]
    if len(seq) and seq[0] == seq[-1]:
        seq = seq[:-1]
    if len(seq) != len(loop):
        return False
    for cand in (loop, loop[::-1]):
        for r in range(len(loop)):
            if seq == cand[r:] + cand[:r]:
                return True
    return False


def _build(ctx, symbolic=True):
    from trimesh.path import Path2D
    from trimesh.path.entities import Line

    if symbolic:
        w, h = ctx.real("w", 6, 9), ctx.real("h", 5, 8)
        ox, oy = ctx.real("ox", -3, 3), ctx.real("oy", -3, 3)
    else:
        w, h, ox, oy = 8.0, 6.0, 1.0, -2.0
    V = [[ox, oy], [ox + w, oy], [ox + w, oy + h], [ox, oy + h],  # rectangle 0..3
         [ox + 1, oy + 1], [ox + 3, oy + 1], [ox + 2, oy + 3],  # triangle 4..6 inside it
         [ox + 20, oy], [ox + 24, oy + 1], [ox + 23, oy + 4], [ox + 20, oy + 3]]  # disjoint quadrilateral 7..10
    loops = [[0, 1, 2, 3], [4, 5, 6], [7, 8, 9, 10]]
    ents = _split(ctx, loops[0], "A", ctx.params.get("maxA", 4)) + _split(ctx, loops[1], "B", ctx.params.get("maxB", 2)) + [loops[2] + [loops[2][0]]]
    k = ctx.choice("rotate_list", min(len(ents), ctx.params.get("rotations", 99)))
    ents = ents[k:] + ents[:k]
    if ctx.choose_bool("reverse_list"):
        ents = ents[::-1]
    p = Path2D(entities=[Line(e) for e in ents], vertices=_as(ctx, V), process=False)
    areas = [w * h, 2, _shoelace([V[i] for i in loops[2]])]
    perims = [2 * (w + h), None, None]
    return p, V, loops, areas, perims, ents


def u_loops(ctx):
    p, V, loops, areas, perims, ents = _build(ctx, True)
    paths = p.paths
    ctx.concrete_equal("three closed paths are recovered (%d entities)" % len(ents), len(paths), 3)
    disc = p.discrete
    found = {}
    Vo = _obj(ctx, V)
    for d in disc:
        d = _obj(ctx, d)
        # which input loop: identify by the first point's index (coordinates are exact terms: compare term-wise with the solver through ctx.eq below)
        n = len(d) - 1
        hit = None
        for li, loop in enumerate(loops):
            if len(loop) == n and li not in found:
                hit = li
                break
        if hit is None:
            ctx.concrete_equal("a recovered loop has the vertex count of an input loop", n, "one of %r" % [len(x) for x in loops])
            continue
        found[hit] = d
    for li, loop in enumerate(loops):
        if li not in found:
            if li != 2 or 0 in found:  # rectangle and quadrilateral both have 4 vertices: matched below by area
                ctx.concrete_equal("loop %d recovered" % li, False, True)
            continue
    # rectangle and quadrilateral have the same vertex count: decide which is which by the first coordinate being below ox + 10
    quads = [found[k] for k in (0, 2) if k in found]
    ctx.concrete_equal("both 4-vertex loops recovered", len(quads), 2)
    if len(quads) == 2:
        ox = V[0][0]
        first_is_rect = bool(quads[0][0][0] < ox + 10) if not ctx.sym else bool(quads[0][0][0] < ox + 10)
        rect, quad = (quads[0], quads[1]) if first_is_rect else (quads[1], quads[0])
        for name, d, loop, area, per in (("rectangle", rect, loops[0], areas[0], perims[0]), ("quadrilateral", quad, loops[2], areas[2], None)):
            ctx.eq("%s: closed (first point = last point)" % name, d[0], d[-1])
            A = _shoelace([list(r) for r in d[:-1]])
            ctx.true("%s: |shoelace area| of the recovered loop = exact area" % name, lib.l_or(A == area, A == -area))
            pts = {tuple(str(x) for x in r) for r in d[:-1]} if ctx.sym else None
            # the recovered vertices are the loop's vertices: coordinate sums agree
            for ax in range(2):
                ctx.eq("%s: same vertices (sum, axis %d)" % (name, ax), sum(r[ax] for r in d[:-1]), sum(Vo[i][ax] for i in loop))
                ctx.eq("%s: same vertices (sum of squares, axis %d)" % (name, ax), sum(r[ax] * r[ax] for r in d[:-1]), sum(Vo[i][ax] * Vo[i][ax] for i in loop))
            if per is not None:
                L = 0
                for a, b in zip(d[:-1], d[1:]):
                    dx, dy = b[0] - a[0], b[1] - a[1]
                    L = L + (nparr.e_abs(dx) if ctx.sym else abs(dx)) + (nparr.e_abs(dy) if ctx.sym else abs(dy))
                ctx.eq("%s: perimeter (axis-aligned: |dx|+|dy| per segment)" % name, L, per)
    if 1 in found:
        d = found[1]
        A = _shoelace([list(r) for r in d[:-1]])
        ctx.true("triangle: |shoelace area| = 2", lib.l_or(A == 2, A == -2))
    # index level: each path's entity chain visits the loop's vertices as a rotation / reversal
    for path in paths:
        seq = []
        for ei in path:
            pts = [int(x) for x in p.entities[int(ei)].points]
            seq.append(pts)
        chain = _chain(seq)
        ctx.concrete_equal("entity chain %r is a rotation / reversal of an input loop" % (chain,), any(_same_cycle(chain, lp) for lp in loops), True)


def _chain(seqs):
    """join polylines end to end in the given order, flipping where needed"""
    if len(seqs) == 1:
        return seqs[0]
    out = list(seqs[0])
    if out[-1] not in (seqs[1][0], seqs[1][-1]):
        out = out[::-1]
    for s in seqs[1:]:
        s = list(s)
        if s[0] != out[-1]:
            s = s[::-1]
        out += s[1:]
    return out


def u_regions(ctx):
    """shapely-backed values on catalogue coordinates for every configuration; similarity transform with reads before / after"""
    p, V, loops, areas, perims, ents = _build(ctx, False)
    quad_area = float(areas[2])
    exp_area = 8.0 * 6.0 - 2.0 + quad_area
    quad_len = sum(float(np.hypot(V[a][0] - V[b][0], V[a][1] - V[b][1])) for a, b in zip(loops[2], loops[2][1:] + loops[2][:1]))
    tri_len = sum(float(np.hypot(V[a][0] - V[b][0], V[a][1] - V[b][1])) for a, b in zip(loops[1], loops[1][1:] + loops[1][:1]))
    exp_len = 2 * (8.0 + 6.0) + tri_len + quad_len
    read_first = ctx.choose_bool("read_before_transform")
    if read_first:
        p.area, p.length, p.polygons_full, p.bounds
    s = [1.0, 2.5, 0.5][ctx.choice("scale", 3)]
    th = [0.0, 0.7, 3.0][ctx.choice("angle", 3)]
    if s != 1.0 or th != 0.0:
        M = np.array([[s * np.cos(th), -s * np.sin(th), 3.0], [s * np.sin(th), s * np.cos(th), -1.0], [0, 0, 1.0]])
        p.apply_transform(M)
    ctx.concrete_equal("closed polygons: 3, regions (shell+holes): 2, roots: 2", (len(p.polygons_closed), len(p.polygons_full), len(p.root)), (3, 2, 2))
    ctx.concrete_equal("area = (rectangle - triangle hole + quadrilateral) * s^2 (1e-9 relative)", bool(np.isclose(p.area, exp_area * s * s, rtol=1e-9, atol=1e-9)), True)
    ctx.concrete_equal("length = sum of all perimeters * s (1e-9 relative)", bool(np.isclose(p.length, exp_len * s, rtol=1e-9, atol=1e-9)), True)
    holes = sorted(len(poly.interiors) for poly in p.polygons_full)
    ctx.concrete_equal("one region has the triangle as a hole", holes, [0, 1])
    ctx.concrete_equal("is_closed", bool(p.is_closed), True)


def u_arc_center(ctx):
    """arc through three symbolic points: the centre is equidistant from all three and in their plane"""
    from trimesh.path import arc

    P = [[ctx.real("p%d_%d" % (i, j), -4, 4) for j in range(2)] for i in range(3)]
    # not collinear: twice the signed area at least 1
    cr = (P[1][0] - P[0][0]) * (P[2][1] - P[0][1]) - (P[1][1] - P[0][1]) * (P[2][0] - P[0][0])
    ctx.assume(lib.l_or(cr > 1, cr < -1))
    r = arc.arc_center(_as(ctx, P), return_normal=False, return_angle=False)
    c = _obj(ctx, r["center"] if isinstance(r, dict) else r.center)
    d = [(c[0] - p[0]) * (c[0] - p[0]) + (c[1] - p[1]) * (c[1] - p[1]) for p in P]
    ctx.eq("centre equidistant from the three points", [d[0], d[0]], [d[1], d[2]])
    rad = r["radius"] if isinstance(r, dict) else r.radius
    ctx.eq("radius^2 = squared distance to a point", rad * rad, d[0])


F = "trimesh.path."
FUN = [F + "traversal.closed_paths", F + "traversal.vertex_to_entity_path", F + "traversal.discretize_path", F + "entities.Line.discrete", F + "entities.Line.reverse", F + "path.Path.paths", F + "path.Path.discrete",
       F + "path.Path2D.polygons_closed", F + "path.Path2D.polygons_full", F + "path.Path2D.area", F + "path.Path.length", F + "path.Path.apply_transform", F + "polygons.enclosure_tree", F + "arc.arc_center"]


def units(tier):
    T = tier == "thorough"
    return [
        Unit("loops-symbolic", u_loops, params={"maxA": 4, "maxB": 1, "rotations": 3} if T else {"maxA": 3, "maxB": 1, "rotations": 2}, key="loops", functions=FUN,
             bounds="rectangle (symbolic size / offset) + nested triangle + quadrilateral; every cut pattern with <= %s entities, every direction assignment, %s of the entity list" % (("4 + 1", "three rotations / reversal") if T else ("3 + 1", "two rotations / reversal")),
             max_paths=6000 if T else 800, wall_s=1400 if T else 400),
        Unit("regions-catalogue", u_regions, params={"maxA": 3, "maxB": 1, "rotations": 3} if T else {"maxA": 2, "maxB": 1, "rotations": 2}, key="regions", functions=FUN, opts={"no_proxy": True},
             bounds="same curves on catalogue coordinates: every configuration (cut patterns as above) x 9 similarity transforms x reads before/after; shapely values", max_paths=60000 if T else 3000, wall_s=1400 if T else 300),
    ]
    # arc_center (Heron's formula: nested square roots in the branch conditions) comes back `unknown` from z3 and is not registered
