"""C03 -- mass properties equal the exact integrals over the enclosed solid."""
from fractions import Fraction as Fr

import numpy as np

from symx.harness import Unit
from symx import lib

META = {
    "level": "other",
    "explanation": "Symbolic execution of the real triangles.mass_properties / Trimesh mass API on z3 reals; every obligation is a polynomial/rational identity "
    "against closed-form simplex integrals, decided by z3 (nlsat) for ALL real coordinates on every path; sat models are replayed on the float code.",
    "assumptions": [
        "divergence theorem (taken from mathematics): the integral of a monomial over the solid equals the flux, through its closed consistently wound boundary, of a field whose divergence is that monomial; the per-triangle flux lemma is what is proved, which extends the tetrahedron result to closed meshes of any size, genus and body count because the code is a plain sum over triangles",
        "coordinates range over all reals (no magnitude bound) unless a unit states one",
    ],
}

FACES_TET = np.array([[0, 2, 1], [0, 1, 3], [1, 2, 3], [0, 3, 2]])


def det3(a, b, c):
    return a[0] * (b[1] * c[2] - b[2] * c[1]) - a[1] * (b[0] * c[2] - b[2] * c[0]) + a[2] * (b[0] * c[1] - b[1] * c[0])


def simplex_moments(verts, vol):
    """exact integral of x_i x_j over the simplex with the 4 given vertices and signed volume vol"""
    s = verts[0] + verts[1] + verts[2] + verts[3]
    m2 = np.empty((3, 3), dtype=object)
    for i in range(3):
        for j in range(3):
            m2[i, j] = vol / 20 * (sum(verts[k][i] * verts[k][j] for k in range(4)) + s[i] * s[j])
    return m2


def inertia_from_second(m2, vol, first, about):
    """tensor about point `about` from S2=int x x^T, S1=int x, V"""
    C = np.empty((3, 3), dtype=object)
    for i in range(3):
        for j in range(3):
            C[i, j] = m2[i, j] - first[i] * about[j] - about[i] * first[j] + vol * about[i] * about[j]
    tr = C[0, 0] + C[1, 1] + C[2, 2]
    I = np.empty((3, 3), dtype=object)
    for i in range(3):
        for j in range(3):
            I[i, j] = (tr if i == j else 0) - C[i, j]
    return I


# Strang-Fix degree-3 rule on the unit triangle (exact for cubic polynomials): barycentric nodes, weights (sum 1)
_Q3 = [((Fr(1, 3), Fr(1, 3), Fr(1, 3)), Fr(-9, 16)), ((Fr(3, 5), Fr(1, 5), Fr(1, 5)), Fr(25, 48)), ((Fr(1, 5), Fr(3, 5), Fr(1, 5)), Fr(25, 48)), ((Fr(1, 5), Fr(1, 5), Fr(3, 5)), Fr(25, 48))]


def flux(F, a, b, c):
    """exact flux  int_T F.n dS  of a vector field with polynomial components of degree <= 3 through triangle (a,b,c)"""
    N = lib.cross3(b - a, c - a)
    tot = 0
    for (l0, l1, l2), w in _Q3:
        x = a * l0 + b * l1 + c * l2
        f = F(x)
        tot = tot + w * (N[0] * f[0] + N[1] * f[1] + N[2] * f[2])
    return tot / 2


def u_cone(ctx):
    """flux lemma for ONE triangle: each accumulated integral is the exact flux of the field whose divergence is the monomial"""
    from trimesh import triangles as T

    tri = ctx.reals("p", (3, 3))
    a, b, c = tri[0], tri[1], tri[2]
    zero = np.zeros(3)
    mp = T.mass_properties(tri[None], center_mass=zero)
    I0 = flux(lambda x: (x[0], 0, 0), a, b, c)
    ctx.eq("I0: volume term = flux(x,0,0)", mp.volume, I0)
    Ixx = flux(lambda x: (x[0] ** 3 / 3, 0, 0), a, b, c)
    Iyy = flux(lambda x: (0, x[1] ** 3 / 3, 0), a, b, c)
    Izz = flux(lambda x: (0, 0, x[2] ** 3 / 3), a, b, c)
    Ixy = flux(lambda x: (x[0] ** 2 * x[1] / 2, 0, 0), a, b, c)
    Iyz = flux(lambda x: (0, x[1] ** 2 * x[2] / 2, 0), a, b, c)
    Ixz = flux(lambda x: (0, 0, x[2] ** 2 * x[0] / 2), a, b, c)
    exp = np.array([[Iyy + Izz, -Ixy, -Ixz], [-Ixy, Ixx + Izz, -Iyz], [-Ixz, -Iyz, Ixx + Iyy]], dtype=object)
    ctx.eq("I4..I9: second-moment terms (tensor about origin)", mp.inertia, exp)
    ctx.eq("mass=density*volume(default density 1)", mp.mass, I0)
    mp2 = T.mass_properties(tri[None], skip_inertia=True)
    first = [flux(lambda x: (x[0] ** 2 / 2, 0, 0), a, b, c), flux(lambda x: (0, x[1] ** 2 / 2, 0), a, b, c), flux(lambda x: (0, 0, x[2] ** 2 / 2), a, b, c)]
    if abs(mp2.volume) >= 1e-13:
        ctx.eq("I1..I3: first-moment terms", mp2.center_mass * mp2.volume, first)
    else:
        ctx.eq("degenerate-centre-is-origin", mp2.center_mass, [0, 0, 0])


def _tet(ctx):
    import trimesh

    V = ctx.reals("v", (4, 3))
    m = trimesh.Trimesh(vertices=V, faces=FACES_TET.copy(), process=False)
    e = V[1:] - V[0]
    vol = det3(e[0], e[1], e[2]) / 6
    return m, V, vol


def u_tetra(ctx):
    m, V, vol = _tet(ctx)
    ctx.eq("volume", m.volume, vol)
    s = V[0] + V[1] + V[2] + V[3]
    if abs(m.volume) >= 1e-13:
        ctx.eq("center_mass", m.center_mass * 4, s)
        m2 = simplex_moments(list(V), vol)
        ctx.eq("inertia-about-com", m.moment_inertia, inertia_from_second(m2, vol, vol * s / 4, s / 4))
        ctx.eq("mass", m.mass, vol)
    else:
        ctx.eq("zero-volume-centre", m.center_mass, [0, 0, 0])


def u_pillow(ctx):
    import trimesh

    V = ctx.reals("v", (3, 3))
    m = trimesh.Trimesh(vertices=V, faces=np.array([[0, 1, 2], [2, 1, 0]]), process=False)
    ctx.eq("volume", m.volume, 0)
    ctx.eq("center", m.center_mass, [0, 0, 0])
    ctx.eq("inertia", m.moment_inertia, np.zeros((3, 3)))
    cr = m.triangles_cross
    ctx.eq("crosses opposite", cr[0], -cr[1])
    ctx.eq("(2*area)^2=|cross|^2", (2 * m.area_faces[1]) ** 2, cr[1][0] ** 2 + cr[1][1] ** 2 + cr[1][2] ** 2)


def u_area(ctx):
    m, V, vol = _tet(ctx)
    tri = V[FACES_TET]
    af = m.area_faces
    for f in range(4):
        cr = lib.cross3(tri[f][1] - tri[f][0], tri[f][2] - tri[f][0])
        ctx.eq("(2*area)^2=|cross|^2 f%d" % f, (2 * af[f]) ** 2, cr[0] ** 2 + cr[1] ** 2 + cr[2] ** 2)
        ctx.true("area>=0 f%d" % f, af[f] >= 0)
    ctx.eq("area=sum", m.area, af[0] + af[1] + af[2] + af[3])


def u_density_com(ctx):
    m, V, vol = _tet(ctx)
    rho = ctx.real("rho", 0.001, 1000)
    c = ctx.reals("c", 3)
    m.density = rho
    m.center_mass = c
    ctx.eq("volume-unchanged", m.volume, vol)
    ctx.eq("mass=rho*V", m.mass, rho * vol)
    ctx.eq("centre-override-honoured", m.center_mass, c)
    s = V[0] + V[1] + V[2] + V[3]
    m2 = simplex_moments(list(V), vol)
    # the override is treated as THE centre of mass: exact tensor about the origin moved to c by the parallel-axis law
    I0 = inertia_from_second(m2, vol, vol * s / 4, [0, 0, 0])
    cc = c[0] * c[0] + c[1] * c[1] + c[2] * c[2]
    shift = np.array([[vol * ((cc if i == j else 0) - c[i] * c[j]) for j in range(3)] for i in range(3)], dtype=object)
    ctx.eq("inertia = rho*(I_origin - V(|c|^2 E - c c^T))", m.moment_inertia, rho * (I0 - shift))


def u_density_only(ctx):
    m, V, vol = _tet(ctx)
    rho = ctx.real("rho", 0.001, 1000)
    ctx.assume(abs(vol) >= 1e-6)
    m.density = rho
    s = V[0] + V[1] + V[2] + V[3]
    m2 = simplex_moments(list(V), vol)
    ctx.eq("centre", m.center_mass * 4, s)
    ctx.eq("inertia linear in density", m.moment_inertia, rho * inertia_from_second(m2, vol, vol * s / 4, s / 4))
    ctx.eq("density", m.density, rho)


def u_frame(ctx):
    """moment_inertia_frame(T): tensor about T's origin in T's axes == exact integral in that frame"""
    m, V, vol = _tet(ctx)
    k = ctx.params["rot"]
    R = lib.ROTATIONS[k]
    t = ctx.reals("t", 3)
    rho = ctx.real("rho", 0.001, 1000)
    ctx.assume(abs(vol) >= 1e-6)
    m.density = rho
    T = lib.affine(R, t, ctx.sym)
    got = m.moment_inertia_frame(T)
    s = V[0] + V[1] + V[2] + V[3]
    m2 = simplex_moments(list(V), vol)
    I_t = inertia_from_second(m2, vol, vol * s / 4, t)
    Ro = lib.as_obj(R)
    exp = rho * Ro.T.dot(I_t).dot(Ro)
    ctx.eq("frame-tensor (density symbolic)", got, exp)


def u_transform_inertia(ctx):
    """inertia.transform_inertia against the definition for two point masses"""
    from trimesh import inertia

    m1 = ctx.real("m1", 0.001, 100)
    m2 = ctx.real("m2", 0.001, 100)
    x = ctx.reals("x", (2, 3))
    t = ctx.reals("t", 3)
    R = lib.ROTATIONS[ctx.params["rot"]]
    Ro = lib.as_obj(R)
    M = m1 + m2
    c = (m1 * x[0] + m2 * x[1]) / M

    def point_tensor(ms, pts):
        I = np.zeros((3, 3), dtype=object)
        for mk, r in zip(ms, pts):
            rr = r[0] * r[0] + r[1] * r[1] + r[2] * r[2]
            for i in range(3):
                for j in range(3):
                    I[i, j] = I[i, j] + mk * ((rr if i == j else 0) - r[i] * r[j])
        return I

    Ic = point_tensor([m1, m2], [x[0] - c, x[1] - c])
    # frame with axes R and origin t: offset convention of Trimesh.moment_inertia_frame
    T = lib.affine(R, t - c, ctx.sym)
    got = inertia.transform_inertia(T, lib.arr(Ic, ctx.sym), parallel_axis=True, mass=M)
    exp = point_tensor([m1, m2], [Ro.T.dot(x[0] - t), Ro.T.dot(x[1] - t)])
    ctx.eq("parallel-axis+rotation", got, exp)
    got2 = inertia.transform_inertia(lib.arr(Ro, ctx.sym), lib.arr(Ic, ctx.sym))
    exp2 = point_tensor([m1, m2], [Ro.dot(x[0] - c), Ro.dot(x[1] - c)])
    ctx.eq("pure-rotation", got2, exp2)


F_TRI = ["trimesh.triangles.mass_properties", "trimesh.triangles.cross", "trimesh.triangles.area"]
F_MESH = F_TRI + ["trimesh.base.Trimesh.mass_properties", "Trimesh.volume", "Trimesh.center_mass", "Trimesh.moment_inertia", "Trimesh.triangles", "Trimesh.triangles_cross", "trimesh.caching.cache_decorator"]


def units(tier):
    us = [
        Unit("flux-lemma", u_cone, functions=F_TRI, bounds="one triangle, 9 unbounded reals", ob_ms=60000, wall_s=200),
        Unit("tetrahedron", u_tetra, functions=F_MESH, bounds="12 unbounded reals; both |V|<tol.zero and |V|>=tol.zero paths", ob_ms=120000, wall_s=400),
        Unit("pillow", u_pillow, functions=F_MESH, bounds="two coincident opposite triangles, 9 unbounded reals"),
        Unit("area", u_area, functions=F_MESH + ["Trimesh.area", "Trimesh.area_faces"], bounds="tetrahedron, 12 unbounded reals", ob_ms=60000),
        Unit("density+centre-override", u_density_com, functions=F_MESH + ["Trimesh.density", "Trimesh.center_mass.setter"], bounds="tetrahedron, density in [1e-3,1e3], override any real point", ob_ms=120000, wall_s=400),
        Unit("density", u_density_only, functions=F_MESH + ["Trimesh.density"], bounds="tetrahedron |V|>=1e-6, density in [1e-3,1e3]", ob_ms=120000, wall_s=400),
    ]
    rots = [1, 4] if tier == "quick" else list(range(len(lib.ROTATIONS)))
    for k in rots:
        us.append(Unit("frame-rot%d" % k, u_frame, params={"rot": k}, functions=F_MESH + ["Trimesh.moment_inertia_frame", "trimesh.inertia.transform_inertia"], key="frame",
                       bounds="tetrahedron |V|>=1e-6; any density in [1e-3,1e3]; frame = catalogue rotation %d x any translation" % k, subspace="rotation catalogue (exact rationals) x symbolic translation x symbolic tetrahedron", ob_ms=120000, wall_s=400))
        us.append(Unit("transform_inertia-rot%d" % k, u_transform_inertia, params={"rot": k}, functions=["trimesh.inertia.transform_inertia"], key="transform_inertia",
                       bounds="two point masses (8 reals) x any translation x catalogue rotation %d" % k, ob_ms=120000, wall_s=400))
    return us
