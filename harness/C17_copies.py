"""C17 -- copies are faithful and share no mutable state with the original."""
import copy as _copy

import numpy as np

from symx import lib, nparr
from symx.harness import Unit as _Unit


def Unit(*a, **k):
    k.setdefault("group", False)
    k.setdefault("feas_ms", 800)
    k.setdefault("ob_ms", 20000)
    return _Unit(*a, **k)


META = {
    "level": "other",
    "explanation": "For each geometry kind a real object is built with a symbolic payload; whether derived values were read before copying, the copy route (.copy(), copy.copy, copy.deepcopy), which of the two "
    "objects is edited afterwards and the EDIT SITE (an index into the enumerated mutable leaves: arrays in place, nested metadata, attributes, visuals, parameters, graph edges, API mutators) are solver "
    "variables resolved by forking, and the written VALUE is a fresh symbolic real outside the range of every existing value. z3 decides that every value of the other object - read again after the edit - "
    "equals its snapshot for all written values, and that copy and original agree right after copying.",
    "assumptions": [
        "one edit after the copy (edit-read-edit aliasing through caches: thorough tier, two edits on the mesh kind)",
        "objects: tetrahedron mesh with colours/attributes/nested metadata/overrides; Box, Sphere, Cylinder primitives (Capsule: mesh creation does not finish under exact arithmetic, not claimed); Path2D of line entities; PointCloud; two-node Scene; dense VoxelGrid; ColorVisuals",
        "texture images (PIL), path polygons (shapely) and cameras are not compared",
    ],
}

TET_V = [(0, 0, 0), (4, 0, 1), (1, 5, 0), (2, 1, 6)]
TET_F = [[0, 2, 1], [0, 1, 3], [1, 2, 3], [0, 3, 2]]


def _as(ctx, a, dt=np.float64):
    a = np.array(a, dtype=object)
    if ctx.sym:
        return nparr.set_sd(nparr.wrap(a), dt)
    return np.array(a.tolist(), dtype=dt)


def _snap(ctx, v):
    if isinstance(v, np.ndarray):
        return np.array(nparr.base(v) if ctx.sym else v, dtype=object if ctx.sym and v.dtype == object else None).copy()
    if isinstance(v, (dict, list, tuple, set)):
        return _copy.deepcopy(_plain(ctx, v))
    return v


def _plain(ctx, v):
    """nested containers with arrays turned into lists (for concrete comparison)"""
    if isinstance(v, dict):
        return {k: _plain(ctx, x) for k, x in v.items()}
    if isinstance(v, (list, tuple)):
        return [_plain(ctx, x) for x in v]
    if isinstance(v, np.ndarray):
        return [_plain(ctx, x) for x in (nparr.base(v) if ctx.sym else v).tolist()]
    return v


def _values(ctx, fn, obj):
    return {k: _snap(ctx, v) for k, v in fn(obj).items()}


def _cmp(ctx, tag, got, exp):
    ctx.concrete_equal(tag + ": same set of values", sorted(got), sorted(exp))
    for k in exp:
        if k not in got:
            continue
        g, e = got[k], exp[k]
        if isinstance(e, np.ndarray) and e.dtype.kind in "fO" or isinstance(g, np.ndarray) and g.dtype.kind in "fO":
            ctx.eq("%s: %s" % (tag, k), g, e)
        elif isinstance(e, np.ndarray):
            ctx.concrete_equal("%s: %s" % (tag, k), np.asarray(g).tolist(), e.tolist())
        elif _has_sym(e) or _has_sym(g):
            fg, fe = _flat(g), _flat(e)
            ctx.concrete_equal("%s: %s (structure)" % (tag, k), len(fg), len(fe))
            if len(fg) == len(fe):
                ctx.eq("%s: %s" % (tag, k), np.array(fg, dtype=object), np.array(fe, dtype=object))
        else:
            ctx.concrete_equal("%s: %s" % (tag, k), g, e)


def _has_sym(v):
    from symx.core import is_sym

    if isinstance(v, dict):
        return any(_has_sym(x) for x in v.values())
    if isinstance(v, (list, tuple)):
        return any(_has_sym(x) for x in v)
    return is_sym(v)


def _flat(v):
    if isinstance(v, dict):
        return [y for k in sorted(v) for y in _flat(v[k])]
    if isinstance(v, (list, tuple)):
        return [y for x in v for y in _flat(x)]
    return [v if not isinstance(v, str) else hash(v) % 1000]


METHODS = [("copy()", lambda o: o.copy()), ("copy.copy", _copy.copy), ("copy.deepcopy", _copy.deepcopy)]


def _case(ctx, make, values, edits, methods=METHODS, reads=None):
    a = make(ctx)
    if ctx.choose_bool("read_first"):
        (reads or values)(a)
    mi = ctx.choice("method", len(methods))
    b = methods[mi][1](a)
    ctx.concrete_equal("%s returns a distinct object of the same type" % methods[mi][0], (b is not a, type(b) is type(a)), (True, True))
    va, vb = _values(ctx, values, a), _values(ctx, values, b)
    _cmp(ctx, "right after %s the copy reports what the original reports" % methods[mi][0], vb, va)
    edit_copy = ctx.choose_bool("edit_copy")
    target, other, snap = (b, a, va) if edit_copy else (a, b, vb)
    n_edits = ctx.params.get("edits", 1)
    for r in range(n_edits):
        si = ctx.choice("site%d" % r, len(edits))
        x = ctx.real("x%d" % r, 20 + 10 * r, 29 + 10 * r)
        name, fn = edits[si]
        fn(target, x)
        _cmp(ctx, "%s, then %s edited by '%s': the other object is unchanged" % (methods[mi][0], "copy" if edit_copy else "original", name), _values(ctx, values, other), snap)
        if n_edits > 1:
            values(target)


# ------------------------------------------------------------------ Trimesh
def _mk_mesh(ctx):
    import trimesh

    V = [list(v) for v in TET_V]
    V[3][2] = ctx.real("v", 5, 7)
    m = trimesh.Trimesh(vertices=_as(ctx, V), faces=np.array(TET_F), process=False)
    m.visual.vertex_colors = np.array([[10, 20, 30, 255], [40, 50, 60, 255], [70, 80, 90, 255], [100, 110, 120, 255]], dtype=np.uint8)
    m.metadata["name"] = "tet"
    m.metadata["nested"] = {"list": [1, 2, 3], "arr": np.array([1.0, 2.0])}
    m.vertex_attributes["tag"] = np.arange(4) + 100
    m.face_attributes["tag"] = np.arange(4) + 200
    m.density = 2
    return m


def _mesh_values(m):
    return {"vertices": m.vertices, "faces": m.faces, "area_faces": m.triangles_cross, "bounds": m.bounds, "volume": np.array([m.volume]), "face_normals_cross": m.triangles_cross,
            "centroid_sum": m.triangles_center, "vertex_colors": np.asarray(m.visual.vertex_colors), "metadata": dict(m.metadata), "vtag": np.asarray(m.vertex_attributes["tag"]),
            "ftag": np.asarray(m.face_attributes["tag"]), "density": np.array([m.density]), "mass": np.array([m.mass]), "edges": np.asarray(m.edges_unique), "watertight": bool(m.is_watertight)}


def _set(arr_get, idx):
    def f(o, x):
        arr_get(o)[idx] = x

    return f


MESH_EDITS = [
    ("vertices[1,0] = x", _set(lambda m: m.vertices, (1, 0))),
    ("vertices += x", lambda m, x: m.vertices.__iadd__(x)),
    ("vertices = new array", lambda m, x: setattr(m, "vertices", np.asarray(m.vertices) * 1 + x)),
    ("faces[0] reversed", lambda m, x: m.faces.__setitem__(0, np.asarray(m.faces)[0][::-1].copy())),
    ("apply_translation", lambda m, x: m.apply_translation([x, 0, 0])),
    ("apply_scale", lambda m, x: m.apply_scale(x)),
    ("invert", lambda m, x: m.invert()),
    ("update_faces", lambda m, x: m.update_faces(np.array([True, True, False, True]))),
    ("vertex_colors[0] = 1", lambda m, x: m.visual.vertex_colors.__setitem__(0, [1, 2, 3, 4])),
    ("metadata['name']", lambda m, x: m.metadata.__setitem__("name", "edited")),
    ("metadata['nested']['list'].append", lambda m, x: m.metadata["nested"]["list"].append(99)),
    ("metadata['nested']['arr'][0] = -1", lambda m, x: m.metadata["nested"]["arr"].__setitem__(0, -1.0)),
    ("vertex_attributes['tag'][0] = 0", lambda m, x: m.vertex_attributes["tag"].__setitem__(0, 0)),
    ("face_attributes['tag'][0] = 0", lambda m, x: m.face_attributes["tag"].__setitem__(0, 0)),
    ("density = x", lambda m, x: setattr(m, "density", x)),
]


def u_mesh(ctx):
    _case(ctx, _mk_mesh, _mesh_values, MESH_EDITS)


def _mk_mesh_default_colours(ctx):
    """colours never assigned; default face colours read once; then one vertex colour edited in place"""
    import trimesh

    V = [list(v) for v in TET_V]
    V[3][2] = ctx.real("v", 5, 7)
    m = trimesh.Trimesh(vertices=_as(ctx, V), faces=np.array(TET_F), process=False)
    if ctx.choose_bool("face_colours_read"):
        m.visual.face_colors
    if ctx.choose_bool("vertex_colour_edited"):
        m.visual.vertex_colors[2] = [9, 8, 7, 255]
    else:
        m.visual.face_colors[1] = [9, 8, 7, 255]
    return m


def _colour_values(m):
    return {"kind": m.visual.kind, "vertex_colors": np.asarray(m.visual.vertex_colors).tolist(), "face_colors": np.asarray(m.visual.face_colors).tolist(), "vertices": m.vertices}


def u_mesh_default_colours(ctx):
    edits = [MESH_EDITS[0], ("vertex_colors[0] = 1", lambda m, x: m.visual.vertex_colors.__setitem__(0, [1, 2, 3, 4])), ("face_colors[0] = 1", lambda m, x: m.visual.face_colors.__setitem__(0, [1, 2, 3, 4]))]
    _case(ctx, _mk_mesh_default_colours, _colour_values, edits, reads=lambda m: m.vertices)


def u_mesh_cached(ctx):
    """copy(include_cache=True): the shallow-copied cache must not become a shared mutable"""
    meth = [("copy(include_cache=True)", lambda o: o.copy(include_cache=True))]
    edits = MESH_EDITS[:8] + [
        ("face_normals[0] = x  (cached array, in place)", lambda m, x: _try_set(m.face_normals, (0, 0), x)),
        ("triangles_center[0] = x  (cached array, in place)", lambda m, x: _try_set(m.triangles_center, (0, 0), x)),
        ("bounds[0] = x  (cached array, in place)", lambda m, x: _try_set(m.bounds, (0, 0), x)),
    ]
    _case(ctx, _mk_mesh, _mesh_values, edits, methods=meth)


def _force_set(arr, idx, x):
    try:
        arr.flags.writeable = True
        arr[idx] = x
    except ValueError:
        pass


def _try_set(arr, idx, x):
    try:
        arr[idx] = x
    except ValueError:
        pass  # read-only cached arrays: the edit is refused, nothing can leak


# ------------------------------------------------------------------ primitives
def _mk_prim(kind):
    def mk(ctx):
        import trimesh

        T = np.eye(4, dtype=object)
        T[0, 3] = ctx.real("tx", -3, 3)
        Tr = _as(ctx, T)
        p = trimesh.primitives
        if kind == "box":
            o = p.Box(extents=_as(ctx, [ctx.real("e0", 1, 2), 3, 4]), transform=Tr)
        elif kind == "sphere":
            o = p.Sphere(radius=1.5, transform=Tr, subdivisions=1)  # scalar parameters go through builtin float(): concrete
        elif kind == "cylinder":
            o = p.Cylinder(radius=1.5, height=3.5, transform=np.array([[1, 0, 0, 2.0], [0, 1, 0, 0], [0, 0, 1, 0], [0, 0, 0, 1]]), sections=7)  # concrete placement: a symbolic offset through the revolved mesh multiplies the paths (> 5 min)
        elif kind == "capsule":
            o = p.Capsule(radius=1.5, height=3.5, transform=np.array([[1, 0, 0, 2.0], [0, 1, 0, 0], [0, 0, 1, 0], [0, 0, 0, 1]]), sections=8)  # symbolic transform through the capsule mesh does not finish
        o.metadata["nested"] = {"list": [1, 2]}
        o.visual.face_colors = [10, 20, 30, 255]
        return o

    return mk


def _prim_values(o):
    d = {"transform": np.asarray(o.primitive.transform), "n_faces": len(o.faces), "n_vertices": len(o.vertices), "metadata": dict(o.metadata), "bounds": o.bounds,
         "face_color0": np.asarray(o.visual.face_colors)[0].tolist()}
    for k in ("extents", "radius", "height", "center"):
        if hasattr(o.primitive, k):
            d[k] = np.atleast_1d(getattr(o.primitive, k))
    return d


def _prim_edits(kind):
    e = [
        ("primitive.transform = translation", lambda o, x: setattr(o.primitive, "transform", np.array([[1, 0, 0, 5], [0, 1, 0, 6], [0, 0, 1, 7], [0, 0, 0, 1.0]]))),
        ("apply_transform", lambda o, x: o.apply_transform(np.array([[1, 0, 0, 0], [0, 1, 0, 9], [0, 0, 1, 0], [0, 0, 0, 1.0]]))),
        ("metadata['nested']['list'].append", lambda o, x: o.metadata["nested"]["list"].append(5)),
        ("visual.face_colors = red", lambda o, x: setattr(o.visual, "face_colors", [255, 0, 0, 255])),
    ]
    e.append(("primitive.transform[0,3] = 7 (in place)", lambda o, x: _force_set(o.primitive.transform, (0, 3), 7.0)))
    # (apply_scale on a primitive takes det ** (1/3): a fractional power, not encodable - the in-place edits below reach the same aliasing)
    if kind == "box":
        e.append(("primitive.extents[0] = 9 (in place)", lambda o, x: _force_set(o.primitive.extents, (0,), 9.0)))
        e.append(("primitive.extents = [x,x,x]", lambda o, x: setattr(o.primitive, "extents", [x, x, x])))
    else:
        e.append(("primitive.radius = 25", lambda o, x: setattr(o.primitive, "radius", 25.0)))
    if kind in ("cylinder", "capsule"):
        e.append(("primitive.height = 27", lambda o, x: setattr(o.primitive, "height", 27.0)))
    return e


def u_prim(ctx):
    kind = ctx.params["kind"]
    _case(ctx, _mk_prim(kind), _prim_values, _prim_edits(kind))


# ------------------------------------------------------------------ path
def _mk_path(ctx):
    from trimesh.path import Path2D
    from trimesh.path.entities import Line

    V = [[0, 0], [4, 0], [4, 3], [0, ctx.real("py", 2, 4)], [10, 10], [12, 10], [12, 13]]
    p = Path2D(entities=[Line([0, 1, 2]), Line([2, 3, 0]), Line([4, 5, 6, 4])], vertices=_as(ctx, V), process=False)
    p.metadata["nested"] = {"list": [1]}
    p.entities[0].layer = "L0"
    return p


def _path_values(p):
    return {"vertices": p.vertices, "points": [np.asarray(e.points).tolist() for e in p.entities], "layers": [getattr(e, "layer", None) for e in p.entities], "closed": [bool(e.closed) for e in p.entities],
            "bounds": p.bounds, "metadata": dict(p.metadata), "n_paths": len(p.paths), "path0": [int(i) for i in p.paths[0]] if len(p.paths) else []}


PATH_EDITS = [
    ("vertices[0,0] = x", _set(lambda p: p.vertices, (0, 0))),
    ("entities[0].points[0] = 4", lambda p, x: p.entities[0].points.__setitem__(0, 4)),
    ("entities[1].reverse()", lambda p, x: p.entities[1].reverse()),
    ("entities[0].layer = 'Z'", lambda p, x: setattr(p.entities[0], "layer", "Z")),
    ("entities = entities[:2]", lambda p, x: setattr(p, "entities", p.entities[:2])),
    ("metadata['nested']['list'].append", lambda p, x: p.metadata["nested"]["list"].append(7)),
    ("apply_translation", lambda p, x: p.apply_translation([x, 0])),
    ("apply_scale", lambda p, x: p.apply_scale(x)),
]


def u_path(ctx):
    _case(ctx, _mk_path, _path_values, PATH_EDITS)


# ------------------------------------------------------------------ point cloud
def _mk_cloud(ctx):
    import trimesh

    V = [[0, 0, 0], [1, 0, 0], [0, 2, ctx.real("pz", 1, 3)]]
    c = trimesh.PointCloud(_as(ctx, V), colors=np.array([[1, 2, 3, 255], [4, 5, 6, 255], [7, 8, 9, 255]], dtype=np.uint8))
    c.metadata["nested"] = {"list": [1]}
    return c


def _cloud_values(c):
    return {"vertices": c.vertices, "bounds": c.bounds, "colors": np.asarray(c.colors).tolist(), "metadata": dict(c.metadata), "centroid": c.centroid}


CLOUD_EDITS = [
    ("vertices[0,0] = x", _set(lambda c: c.vertices, (0, 0))),
    ("vertices = new", lambda c, x: setattr(c, "vertices", np.asarray(c.vertices) * 1 + x)),
    ("colors[0] = 9", lambda c, x: c.colors.__setitem__(0, [9, 9, 9, 9])),
    ("metadata nested", lambda c, x: c.metadata["nested"]["list"].append(3)),
    ("apply_transform", lambda c, x: c.apply_transform(np.array([[1, 0, 0, 5], [0, 1, 0, 0], [0, 0, 1, 0], [0, 0, 0, 1.0]]))),
]


def u_cloud(ctx):
    _case(ctx, _mk_cloud, _cloud_values, CLOUD_EDITS)


# ------------------------------------------------------------------ scene
def _mk_scene(ctx):
    import trimesh

    sc = trimesh.Scene()
    m = _mk_mesh(ctx)
    T1 = np.eye(4, dtype=object)
    T1[1, 3] = ctx.real("ty", -3, 3)
    sc.add_geometry(m, node_name="n1", geom_name="g", transform=_as(ctx, T1))
    # a second instance of the same geometry (add_geometry would register a renamed copy)
    sc.graph.update(frame_to="n2", frame_from="n1", matrix=_as(ctx, [[1, 0, 0, 5], [0, 1, 0, 0], [0, 0, 1, 0], [0, 0, 0, 1]]), geometry="g", metadata={"tag": "orig", "nested": {"k": [1, 2]}})
    sc.metadata["nested"] = {"list": [1]}
    return sc


def _scene_values(sc):
    d = {"nodes": sorted(sc.graph.nodes), "geometry": sorted(sc.geometry), "metadata": dict(sc.metadata), "base": sc.graph.base_frame}
    for n in sorted(sc.graph.nodes_geometry):
        T, g = sc.graph[n]
        d["T_" + n] = np.asarray(T)
        d["g_" + n] = g
    for k, g in sc.geometry.items():
        d["verts_" + k] = g.vertices
        d["colors_" + k] = np.asarray(g.visual.vertex_colors).tolist()
    d["bounds"] = sc.bounds
    d["edge_metadata"] = {"%s>%s" % (a, b): dict(attr.get("metadata") or {}) for a, b, attr in sc.graph.to_edgelist()}
    return d


SCENE_EDITS = [
    ("geometry['g'].vertices[0,0] = x", lambda s, x: s.geometry["g"].vertices.__setitem__((0, 0), x)),
    ("graph.update(n1)", lambda s, x: s.graph.update(frame_to="n1", matrix=np.array([[1, 0, 0, 7], [0, 1, 0, 0], [0, 0, 1, 0], [0, 0, 0, 1.0]]))),
    ("graph edge matrix edited in place", lambda s, x: _try_set(s.graph.transforms.edge_data[("n1", "n2")]["matrix"], (2, 3), 3.0)),
    ("edge metadata edited in place", lambda s, x: s.graph.transforms.edge_data[("n1", "n2")]["metadata"]["nested"]["k"].append(3)),
    ("edge metadata key set in place", lambda s, x: s.graph.transforms.edge_data[("n1", "n2")]["metadata"].__setitem__("tag", "edited")),
    ("edge matrix made writeable and edited in place", lambda s, x: _force_set(s.graph.transforms.edge_data[("n1", "n2")]["matrix"], (1, 3), 9.0)),
    ("delete_geometry", lambda s, x: s.delete_geometry("g")),
    ("add_geometry", lambda s, x: s.add_geometry(s.geometry["g"].copy(), node_name="n3", geom_name="g3")),
    ("apply_transform", lambda s, x: s.apply_transform(np.array([[1, 0, 0, 0], [0, 1, 0, 0], [0, 0, 1, 4], [0, 0, 0, 1.0]]))),
    ("metadata nested", lambda s, x: s.metadata["nested"]["list"].append(3)),
    ("geometry colours", lambda s, x: s.geometry["g"].visual.vertex_colors.__setitem__(0, [1, 1, 1, 1])),
    ("rezero", lambda s, x: s.rezero()),
]


def u_scene(ctx):
    _case(ctx, _mk_scene, _scene_values, SCENE_EDITS, methods=[METHODS[0], METHODS[2]])


# ------------------------------------------------------------------ voxel grid
def _mk_voxel(ctx):
    from trimesh.voxel import base as VB

    fill = np.zeros((2, 2, 2), dtype=bool)
    fill[0, 1, 1] = fill[1, 0, 0] = True
    T = np.diag([2, 2, 2, 1]).astype(object)
    T[0, 3] = ctx.real("ox", -3, 3)
    return VB.VoxelGrid(fill, transform=_as(ctx, T))


def _voxel_values(v):
    return {"transform": np.asarray(v.transform), "matrix": np.asarray(v.matrix).tolist(), "points": v.points, "filled": int(v.filled_count), "sparse": np.asarray(v.sparse_indices).tolist()}


VOXEL_EDITS = [
    ("apply_transform", lambda v, x: v.apply_transform(np.array([[1, 0, 0, 0], [0, 1, 0, 6], [0, 0, 1, 0], [0, 0, 0, 1.0]]))),
    ("apply_scale", lambda v, x: v.apply_scale(3.0)),
    ("encoding.data[0,0,0] = True", lambda v, x: _try_set(v.encoding.data, (0, 0, 0), True)),
    ("transform matrix edited in place", lambda v, x: _try_set(v.transform, (1, 3), 8.0)),
    ("transform matrix made writeable and edited in place", lambda v, x: _force_set(v.transform, (1, 3), 8.0)),
    ("translation[1] = 5 (in place)", lambda v, x: _force_set(v.translation, (1,), 5.0)),
    ("strip()", lambda v, x: v.strip()),
]


def u_voxel(ctx):
    _case(ctx, _mk_voxel, _voxel_values, VOXEL_EDITS)


# ------------------------------------------------------------------ visuals
def _mk_visual(ctx):
    m = _mk_mesh(ctx)
    if ctx.params.get("face"):
        m.visual.face_colors = np.array([[10, 20, 30, 255], [40, 50, 60, 255], [70, 80, 90, 255], [100, 110, 120, 255]], dtype=np.uint8)
    return m.visual


def _visual_values(v):
    d = {"kind": v.kind}
    if v.kind == "vertex":
        d["vertex_colors"] = np.asarray(v.vertex_colors).tolist()
    elif v.kind == "face":
        d["face_colors"] = np.asarray(v.face_colors).tolist()
    return d


VISUAL_EDITS = [
    ("own colours [0] = 1", lambda v, x: (v.vertex_colors if v.kind == "vertex" else v.face_colors).__setitem__(0, [1, 2, 3, 4])),
    ("own colours [1,2] = 7", lambda v, x: (v.vertex_colors if v.kind == "vertex" else v.face_colors).__setitem__((1, 2), 7)),
]


def u_visual(ctx):
    _case(ctx, _mk_visual, _visual_values, VISUAL_EDITS, methods=[METHODS[0], METHODS[2]])


F = "trimesh."
FUN = [F + "base.Trimesh.copy", F + "base.Trimesh.__copy__", F + "base.Trimesh.__deepcopy__", F + "primitives.Primitive.copy", F + "primitives.Primitive.to_dict", F + "path.path.Path.copy", F + "path.entities.Entity.copy",
       F + "points.PointCloud.copy", F + "scene.scene.Scene.copy", F + "scene.transforms.SceneGraph.copy", F + "voxel.base.VoxelGrid.copy", F + "visual.color.ColorVisuals.copy", F + "caching.DataStore", F + "caching.Cache"]


def units(tier):
    T = tier == "thorough"
    us = [
        Unit("mesh", u_mesh, key="mesh", functions=FUN, bounds="tetrahedron (one symbolic coordinate) with colours, attributes, nested metadata, density; 2 read states x 3 copy routes x 2 sides x 15 edit sites, written value symbolic", max_paths=400, wall_s=400),
        Unit("mesh-default-colours", u_mesh_default_colours, key="mesh_colours", functions=FUN, bounds="mesh whose colours were never assigned: default face colours read or not, then a vertex or face colour edited in place; 3 routes x 2 sides x 3 edits", max_paths=300, wall_s=300),
        Unit("mesh-include_cache", u_mesh_cached, key="mesh_cached", functions=FUN, bounds="copy(include_cache=True); 2 x 2 x 11 edit sites incl. in-place writes to cached arrays", max_paths=200, wall_s=300),
    ]
    for kind in ("box", "sphere", "cylinder"):  # Capsule: the exact-arithmetic run of its mesh creation (trig/sqrt chains) does not finish: not claimed
        us.append(Unit("primitive-" + kind, u_prim, params={"kind": kind}, key="primitive/" + kind, functions=FUN, bounds="%s with symbolic parameters and non-default construction arguments; all routes/sides/edit sites" % kind, max_paths=500, wall_s=400))
    us += [
        Unit("path2d", u_path, key="path", functions=FUN, bounds="Path2D of three line entities, one symbolic coordinate; 2 x 3 x 2 x 8 edit sites", max_paths=300, wall_s=300),
        Unit("pointcloud", u_cloud, key="pointcloud", functions=FUN, bounds="3-point cloud with colours; all routes/sides/5 edit sites", max_paths=200, wall_s=300),
        Unit("scene", u_scene, key="scene", functions=FUN, bounds="scene world->n1->n2 instancing one mesh; 2 routes x 2 sides x 12 edit sites", max_paths=200, wall_s=400),
        Unit("voxelgrid", u_voxel, key="voxel", functions=FUN, bounds="2x2x2 dense grid with symbolic offset; all routes/sides/7 edit sites", max_paths=200, wall_s=300),
        Unit("colorvisuals-vertex", u_visual, key="visual", functions=FUN, bounds="ColorVisuals (vertex colours) of a mesh; 2 routes x 2 sides x 3 edits", max_paths=100, wall_s=200),
        Unit("colorvisuals-face", u_visual, params={"face": True}, key="visual", functions=FUN, bounds="ColorVisuals (face colours) of a mesh; 2 routes x 2 sides x 3 edits", max_paths=100, wall_s=200),
    ]
    if T:
        us.append(Unit("mesh-two-edits", u_mesh, params={"edits": 2}, key="mesh", functions=FUN, bounds="as 'mesh' with two successive edits (15 x 15 sites) and re-reads in between", max_paths=6000, wall_s=2400))
    return us
