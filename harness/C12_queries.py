"""C12 -- accelerated ray and proximity queries equal exhaustive evaluation."""
import numpy as np

from symx import lib, nparr
from symx.lib import l_and, l_not, l_or
from symx.harness import Unit

META = {
    "level": "other",
    "explanation": "The real ray_triangle / triangles.closest_point / points_to_barycentric code runs on z3 reals. Pruning soundness of ray_bounds is an obligation over ALL rays, boxes and ray "
    "parameters; hits are compared with the all-triangles definition (exact plane/line intersection + barycentric inclusion computed by the harness); for closest_point an existential query "
    "asks the solver for any point of the triangle strictly closer than the returned one, on every region path of the real code.",
    "assumptions": [
        "the r-tree is replaced by its contract (returns every stored box that intersects the query box), implemented over symbolic boxes; embree is compiled and not claimed",
        "general position margins: hits with barycentric coordinates >= 1e-3 inside / <= -1e-3 outside, |d.n| >= 1e-3, ray parameter >= 1e-3 or <= -1e-3; unit ray directions",
        "catalogue triangles (exact rationals) x fully symbolic rays / points, and symbolic triangles x catalogue rays",
    ],
}

TRIS = [
    [(0, 0, 0), (4, 0, 0), (0, 3, 0)],  # right, axis aligned
    [(1, 1, 1), (5, 2, 0), (2, 6, 3)],  # acute, oblique
    [(0, 0, 0), (10, 0, 1), (5, 1, 0)],  # obtuse / flat-ish
    [(-2, 1, 5), (4, 1, 5), (-2, 7, -3)],
    [(0, 0, 0), (100, 1, 0), (50, 2, lib.Fr(1, 2))],  # needle
    [(lib.Fr(1, 2), lib.Fr(1, 3), lib.Fr(-5, 7)), (lib.Fr(9, 4), -6, 2), (-3, lib.Fr(22, 7), 8)],
]


def _tri(ctx, k):
    V = np.array(TRIS[k], dtype=object)
    return nparr.set_sd(nparr.wrap(V), np.float64) if ctx.sym else np.array([[float(x) for x in r] for r in V])


def _bary(a, b, c, p):
    """barycentric coordinates of p w.r.t. (a,b,c) by Cramer on the normal equations (harness side, independent of the code)"""
    e1 = [b[i] - a[i] for i in range(3)]
    e2 = [c[i] - a[i] for i in range(3)]
    w = [p[i] - a[i] for i in range(3)]
    d11, d12, d22 = lib.dot3(e1, e1), lib.dot3(e1, e2), lib.dot3(e2, e2)
    w1, w2 = lib.dot3(w, e1), lib.dot3(w, e2)
    det = d11 * d22 - d12 * d12
    u = (d22 * w1 - d12 * w2) / det
    v = (d11 * w2 - d12 * w1) / det
    return 1 - u - v, u, v


class TreeStub:
    """contract of the r-tree used by ray_triangle_candidates: `bounds` is the AABB of everything stored, `intersection(box)`
    yields every stored item whose AABB intersects the query box (closed intervals)"""

    def __init__(self, triangles, sym):
        self.sym = sym
        T = np.asarray(nparr.base(triangles) if sym else triangles, dtype=object if sym else float)
        self.boxes = []
        for t in T:
            lo = [self._min([t[k][i] for k in range(3)]) for i in range(3)]
            hi = [self._max([t[k][i] for k in range(3)]) for i in range(3)]
            self.boxes.append((lo, hi))
        lo = [self._min([b[0][i] for b in self.boxes]) for i in range(3)]
        hi = [self._max([b[1][i] for b in self.boxes]) for i in range(3)]
        arr = np.array(lo + hi, dtype=object if sym else float)
        self.bounds = nparr.set_sd(nparr.wrap(arr), np.float64) if sym else arr

    def _min(self, xs):
        r = xs[0]
        for x in xs[1:]:
            r = nparr.e_min(r, x) if self.sym else min(r, x)
        return r

    def _max(self, xs):
        r = xs[0]
        for x in xs[1:]:
            r = nparr.e_max(r, x) if self.sym else max(r, x)
        return r

    def intersection(self, box):
        box = list(nparr.base(box).reshape(-1)) if isinstance(box, np.ndarray) else list(box)
        out = []
        for i, (lo, hi) in enumerate(self.boxes):
            hit = True
            for k in range(3):
                hit = l_and(hit, lo[k] <= box[3 + k], hi[k] >= box[k])
            if bool(hit):
                out.append(i)
        return out


DIRS = [(0, 0, -1), (1, 0, 0), (lib.Fr(1, 3), lib.Fr(2, 3), lib.Fr(-2, 3)), (lib.Fr(-2, 7), lib.Fr(3, 7), lib.Fr(6, 7)), (lib.Fr(3, 5), 0, lib.Fr(-4, 5)), (0, -1, 0)]


def _unit_dir(ctx, name):
    k = ctx.params.get("dir")
    if k is not None:
        d = np.array(DIRS[k], dtype=object)
        return nparr.set_sd(nparr.wrap(d), np.float64) if ctx.sym else np.array([float(x) for x in d])
    d = ctx.reals(name, 3, -1, 1)
    if ctx.sym:
        ctx.assume(d[0] * d[0] + d[1] * d[1] + d[2] * d[2] == 1)
        return d
    n = np.linalg.norm(d)
    ctx.assume(n > 1e-3)
    return d / n


def u_ray_triangle(ctx):
    """one catalogue triangle x every ray: hit reported iff the ray crosses the interior (at margin), at the exact location"""
    from trimesh.ray import ray_triangle as RT

    T = _tri(ctx, ctx.params["tri"])
    o = ctx.reals("o", 3, -20, 20)
    d = _unit_dir(ctx, "d")
    a, b, c = T[0], T[1], T[2]
    nrm = lib.cross3([b[i] - a[i] for i in range(3)], [c[i] - a[i] for i in range(3)])
    dn = lib.dot3(d, nrm)
    nn2 = lib.dot3(nrm, nrm)
    # |d . n_unit| >= 1e-3  <=>  dn^2 >= 1e-6 |n|^2
    mode = ctx.params["mode"]
    ctx.assume(dn * dn >= 1e-6 * nn2)
    t = lib.dot3([a[i] - o[i] for i in range(3)], nrm) / dn
    p = [o[i] + t * d[i] for i in range(3)]
    w0, w1, w2 = _bary(a, b, c, p)
    if mode == "hit":
        ctx.assume(l_and(t >= 1e-3, w0 >= 1e-3, w1 >= 1e-3, w2 >= 1e-3))
    elif mode == "behind":
        ctx.assume(l_and(t <= -1e-3, w0 >= 1e-3, w1 >= 1e-3, w2 >= 1e-3))
    else:
        ctx.assume(l_and(t >= 1e-3, l_or(w0 <= -1e-3, w1 <= -1e-3, w2 <= -1e-3)))
    tris = T[None] if not ctx.sym else nparr.set_sd(nparr.wrap(nparr.base(T)[None]), np.float64)
    ro = o[None] if not ctx.sym else nparr.set_sd(nparr.wrap(nparr.base(o)[None]), np.float64)
    rd = d[None] if not ctx.sym else nparr.set_sd(nparr.wrap(nparr.base(d)[None]), np.float64)
    tree = TreeStub(tris, ctx.sym)
    for multiple in (True, False):
        it, ir, loc = RT.ray_triangle_id(tris, ro, rd, tree=tree, multiple_hits=multiple)
        nh = len(np.asarray(it).reshape(-1))
        ctx.concrete_equal("number of hits (%s, multiple_hits=%s)" % (mode, multiple), nh, 1 if mode == "hit" else 0)
        if nh == 1:
            ctx.eq("hit location = o + t d on the triangle's plane (multiple_hits=%s)" % multiple, np.asarray(nparr.base(loc) if ctx.sym else loc).reshape(-1), p)
            ctx.concrete_equal("hit triangle / ray index", (int(np.asarray(it).reshape(-1)[0]), int(np.asarray(ir).reshape(-1)[0])), (0, 0))


def u_ray_two_triangles(ctx):
    """two parallel catalogue triangles hit by one ray: both are reported, first-hit returns the nearer one"""
    from trimesh.ray import ray_triangle as RT

    k = ctx.params["tri"]
    T0 = np.array(TRIS[k], dtype=object)
    off = np.array([lib.Fr(1, 2), lib.Fr(-1, 3), 4], dtype=object)
    T1 = T0 + off
    o = ctx.reals("o", 3, -20, 20)
    d = _unit_dir(ctx, "d")
    both = np.stack([T0, T1])
    tris = nparr.set_sd(nparr.wrap(both), np.float64) if ctx.sym else np.array([[[float(x) for x in r] for r in t] for t in both])
    ts, ps = [], []
    for T in (T0, T1):
        a, b, c = T[0], T[1], T[2]
        nrm = lib.cross3([b[i] - a[i] for i in range(3)], [c[i] - a[i] for i in range(3)])
        dn = lib.dot3(d, nrm)
        ctx.assume(dn * dn >= 1e-6 * lib.dot3(nrm, nrm))
        t = lib.dot3([a[i] - o[i] for i in range(3)], nrm) / dn
        p = [o[i] + t * d[i] for i in range(3)]
        w0, w1, w2 = _bary(a, b, c, p)
        ctx.assume(l_and(t >= 1e-3, w0 >= 1e-3, w1 >= 1e-3, w2 >= 1e-3))
        ts.append(t)
        ps.append(p)
    ctx.assume(l_or(ts[0] - ts[1] >= 1e-3, ts[1] - ts[0] >= 1e-3))
    if ctx.params.get("batch"):
        return _two_triangles_batch(ctx, RT, tris, o, d, ts, ps)
    ro = o[None] if not ctx.sym else nparr.set_sd(nparr.wrap(nparr.base(o)[None]), np.float64)
    rd = d[None] if not ctx.sym else nparr.set_sd(nparr.wrap(nparr.base(d)[None]), np.float64)
    tree = TreeStub(tris, ctx.sym)
    it, ir, loc = RT.ray_triangle_id(tris, ro, rd, tree=tree, multiple_hits=True)
    ctx.concrete_equal("both triangles are hit", sorted(int(i) for i in np.asarray(it).reshape(-1)), [0, 1])
    it1, ir1, loc1 = RT.ray_triangle_id(tris, ro, rd, tree=tree, multiple_hits=False)
    first = 0 if bool(ts[0] < ts[1]) else 1
    ctx.concrete_equal("first hit is the nearer triangle", [int(i) for i in np.asarray(it1).reshape(-1)], [first])
    if len(np.asarray(it1).reshape(-1)) == 1:
        ctx.eq("first hit location", np.asarray(nparr.base(loc1) if ctx.sym else loc1).reshape(-1), ps[first])


def _two_triangles_batch(ctx, RT, tris, o, d, ts, ps):
    """the same two triangles queried by a BATCH of two rays in one call: ray 0 starts between the triangles (one candidate
    behind its origin, one ahead), ray 1 is the symbolic ray with both ahead; per-ray answers must not depend on the batch"""
    s_ = ctx.real("s", 0.001, 0.999)  # where between the two crossings ray 0 starts: close behind it the nearer triangle's box still meets the ray's box
    tm = ts[0] + s_ * (ts[1] - ts[0])
    o0 = [o[i] + tm * d[i] for i in range(3)]
    first = 0 if bool(ts[0] < ts[1]) else 1
    oo, dd = np.array([o0, list(o)], dtype=object), np.array([list(d), list(d)], dtype=object)
    if ctx.sym:
        ro, rd = nparr.set_sd(nparr.wrap(oo), np.float64), nparr.set_sd(nparr.wrap(dd), np.float64)
    else:
        ro, rd = oo.astype(float), dd.astype(float)
    tree = TreeStub(tris, ctx.sym)
    it, ir, loc = RT.ray_triangle_id(tris, ro, rd, tree=tree, multiple_hits=True)
    got = sorted((int(r), int(t)) for r, t in zip(np.asarray(ir).reshape(-1), np.asarray(it).reshape(-1)))
    ctx.concrete_equal("batch, all hits: ray 0 hits only the farther triangle, ray 1 both", got, sorted([(0, 1 - first), (1, 0), (1, 1)]))
    it1, ir1, loc1 = RT.ray_triangle_id(tris, ro, rd, tree=tree, multiple_hits=False)
    got1 = sorted((int(r), int(t)) for r, t in zip(np.asarray(ir1).reshape(-1), np.asarray(it1).reshape(-1)))
    ctx.concrete_equal("batch, first hits: ray 0 -> farther triangle, ray 1 -> nearer triangle", got1, [(0, 1 - first), (1, first)])
    if got1 == [(0, 1 - first), (1, first)]:
        L = np.asarray(nparr.base(loc1) if ctx.sym else loc1).reshape(-1, 3)
        order = [int(r) for r in np.asarray(ir1).reshape(-1)]
        ctx.eq("batch, first hit location of ray 1", L[order.index(1)], ps[first])
        ctx.eq("batch, first hit location of ray 0", L[order.index(0)], ps[1 - first])


def u_ray_bounds(ctx):
    """pruning soundness: every ray point with parameter >= buffer inside the tree bounds (along the dominant axis) lies in the ray's box"""
    from trimesh.ray import ray_triangle as RT

    o = ctx.reals("o", 3, -100, 100)
    d = ctx.reals("d", 3, -1, 1)
    ctx.assume(l_or(d[0] >= 0.1, d[0] <= -0.1, d[1] >= 0.1, d[1] <= -0.1, d[2] >= 0.1, d[2] <= -0.1))
    lo = ctx.reals("lo", 3, -100, 100)
    ext = ctx.reals("ext", 3, 0, 100)
    hi = lo + ext
    t = ctx.real("t", 1e-5, 1000)
    bounds = np.concatenate([nparr.base(lo), nparr.base(hi)]) if ctx.sym else np.concatenate([lo, hi])
    bounds = nparr.set_sd(nparr.wrap(bounds), np.float64) if ctx.sym else bounds
    ro = o[None] if not ctx.sym else nparr.set_sd(nparr.wrap(nparr.base(o)[None]), np.float64)
    rd = d[None] if not ctx.sym else nparr.set_sd(nparr.wrap(nparr.base(d)[None]), np.float64)
    box = RT.ray_bounds(ro, rd, bounds)
    box = list(np.asarray(nparr.base(box) if ctx.sym else box).reshape(-1))
    p = [o[i] + t * d[i] for i in range(3)]
    inside_tree = l_and(*[l_and(p[i] >= lo[i], p[i] <= hi[i]) for i in range(3)])
    in_box = l_and(*[l_and(p[i] >= box[i], p[i] <= box[3 + i]) for i in range(3)])
    ctx.true("every ray point inside the tree bounds (t >= buffer) is inside the ray's query box", l_or(l_not(inside_tree), in_box))


def _closest_ref(a, b, c, p):
    """independent exact closest point (float): clamp the plane projection, else the best of the three edges"""
    a, b, c, p = [np.asarray(x, dtype=float) for x in (a, b, c, p)]
    w0, w1, w2 = _bary(a, b, c, p)
    cands = []
    if min(w0, w1, w2) >= 0:
        cands.append(w0 * a + w1 * b + w2 * c)
    for x, y in ((a, b), (b, c), (c, a)):
        u = y - x
        s = min(1.0, max(0.0, float((p - x).dot(u)) / float(u.dot(u))))
        cands.append(x + s * u)
    return min(cands, key=lambda q: float((q - p).dot(q - p)))


def u_closest_point(ctx):
    """triangles.closest_point: the result is in the triangle and no point of the triangle is closer (existential query)"""
    from trimesh import triangles as TM

    T = _tri(ctx, ctx.params["tri"])
    p = ctx.reals("p", 3, -100, 100)
    tris = T[None] if not ctx.sym else nparr.set_sd(nparr.wrap(nparr.base(T)[None]), np.float64)
    pts = p[None] if not ctx.sym else nparr.set_sd(nparr.wrap(nparr.base(p)[None]), np.float64)
    r = TM.closest_point(tris, pts)
    r = list(np.asarray(nparr.base(r) if ctx.sym else r).reshape(-1))
    a, b, c = T[0], T[1], T[2]
    u = ctx.real("u", 0, 1)  # the existentially quantified competitor a+u(b-a)+v(c-a)
    v = ctx.real("v", 0, 1)
    if ctx.sym:
        w0, w1, w2 = _bary(a, b, c, r)
        nrm = lib.cross3([b[i] - a[i] for i in range(3)], [c[i] - a[i] for i in range(3)])
        ctx.true("result lies in the triangle's plane", lib.dot3([r[i] - a[i] for i in range(3)], nrm) == 0)
        ctx.true("result lies inside the closed triangle (tolerance 1e-9)", l_and(w0 >= -1e-9, w1 >= -1e-9, w2 >= -1e-9))
        # existential: some (u, v) of the triangle strictly closer (by more than 1e-9 in squared distance)?
        q = [a[i] + u * (b[i] - a[i]) + v * (c[i] - a[i]) for i in range(3)]
        dq = lib.dot3([q[i] - p[i] for i in range(3)], [q[i] - p[i] for i in range(3)])
        dr = lib.dot3([r[i] - p[i] for i in range(3)], [r[i] - p[i] for i in range(3)])
        ctx.true("no point a+u(b-a)+v(c-a), u,v>=0, u+v<=1 is closer than the result", l_or(u + v > 1, dq >= dr - 1e-9))
    else:
        ref = _closest_ref(a, b, c, p)
        dr = float((np.array(r) - p).dot(np.array(r) - p))
        dref = float((ref - p).dot(ref - p))
        ctx.true("no point a+u(b-a)+v(c-a), u,v>=0, u+v<=1 is closer than the result", dr <= dref + 1e-9 * (1 + dref), "result %r (d2=%r) reference %r (d2=%r)" % (r, dr, ref, dref))
        w = _bary(a, b, c, np.array(r))
        ctx.true("result lies inside the closed triangle", min(w) >= -1e-7, "barycentric %r" % (w,))


def u_barycentric(ctx):
    """points_to_barycentric (both methods): coordinates sum to 1 and rebuild the point for points in the triangle's plane"""
    from trimesh import triangles as TM

    T = _tri(ctx, ctx.params["tri"])
    u = ctx.real("u", -3, 3)
    v = ctx.real("v", -3, 3)
    a, b, c = T[0], T[1], T[2]
    p = [a[i] + u * (b[i] - a[i]) + v * (c[i] - a[i]) for i in range(3)]
    tris = T[None] if not ctx.sym else nparr.set_sd(nparr.wrap(nparr.base(T)[None]), np.float64)
    pts = np.array([p], dtype=object if ctx.sym else float)
    pts = nparr.set_sd(nparr.wrap(pts), np.float64) if ctx.sym else pts
    for method in ("cramer", "cross"):
        bc = TM.points_to_barycentric(tris, pts, method=method)
        bc = list(np.asarray(nparr.base(bc) if ctx.sym else bc).reshape(-1))
        ctx.eq("barycentric coordinates (%s) = (1-u-v, u, v)" % method, bc, [1 - u - v, u, v])


F = "trimesh."


def units(tier):
    T = tier == "thorough"
    us = []
    tris = (0, 1, 3) if not T else range(len(TRIS))
    fr = [F + "ray.ray_triangle.ray_triangle_id", F + "ray.ray_triangle.ray_triangle_candidates", F + "ray.ray_triangle.ray_bounds", F + "intersections.planes_lines", F + "triangles.points_to_barycentric", F + "triangles.normals"]
    what = {"hit": "crosses the interior ahead of the origin", "behind": "crosses the interior behind the origin", "miss": "misses the triangle"}
    combos = [(0, 0), (0, 2), (1, 1), (1, 3), (3, 4), (3, 5)] if not T else [(k, dk) for k in range(len(TRIS)) for dk in range(len(DIRS))]
    for k, dk in combos:
        for mode in ("hit", "behind", "miss"):
            us.append(Unit("ray-triangle%d-dir%d-%s" % (k, dk, mode), u_ray_triangle, params={"tri": k, "mode": mode, "dir": dk}, key="ray_triangle", functions=fr,
                           bounds="catalogue triangle %d x catalogue unit direction %d x EVERY origin |o|<=20 such that the ray %s at margin 1e-3" % (k, dk, what[mode]),
                           subspace="catalogue triangle x catalogue direction x symbolic origin", max_paths=300, wall_s=200, ob_ms=30000, feas_ms=800, group=False))
    if T:
        for mode in ("hit", "behind", "miss"):
            us.append(Unit("ray-triangle0-anydir-%s" % mode, u_ray_triangle, params={"tri": 0, "mode": mode}, key="ray_triangle", functions=fr,
                           bounds="catalogue triangle 0 x EVERY ray (origin |o|<=20, any unit direction) that %s at margin 1e-3" % what[mode], subspace="catalogue triangle x symbolic ray", max_paths=300, wall_s=900, ob_ms=60000, feas_ms=800, group=False))
    for k in tris:
        us.append(Unit("closest_point-triangle%d" % k, u_closest_point, params={"tri": k}, key="closest_point", functions=[F + "triangles.closest_point"], bounds="catalogue triangle %d x EVERY query point |p|<=100; all seven region paths" % k,
                       subspace="catalogue triangle x symbolic point", max_paths=400, wall_s=300, ob_ms=30000, feas_ms=800, group=False))
        us.append(Unit("barycentric-triangle%d" % k, u_barycentric, params={"tri": k}, key="barycentric", functions=[F + "triangles.points_to_barycentric"], bounds="catalogue triangle %d x every point of its plane with |u|,|v|<=3" % k, group=False))
    for k, dk in (((1, 3), (0, 0)) if not T else ((0, 0), (0, 2), (1, 1), (1, 3), (3, 4))):
        us.append(Unit("ray-two-triangles%d-dir%d" % (k, dk), u_ray_two_triangles, params={"tri": k, "dir": dk}, key="ray_two", functions=[F + "ray.ray_triangle.ray_triangle_id", "trimesh.grouping.group"], bounds="two parallel copies of catalogue triangle %d x catalogue direction %d x every origin whose ray crosses both interiors at margin" % (k, dk),
                       max_paths=300, wall_s=300, ob_ms=30000, feas_ms=800, group=False))
        us.append(Unit("ray-batch-two-triangles%d-dir%d" % (k, dk), u_ray_two_triangles, params={"tri": k, "dir": dk, "batch": True}, key="ray_batch", functions=[F + "ray.ray_triangle.ray_triangle_id", F + "ray.ray_triangle.ray_triangle_candidates", "trimesh.grouping.group"], bounds="one call with two rays against two parallel copies of catalogue triangle %d, catalogue direction %d: every origin whose ray crosses both interiors at margin, plus a ray starting anywhere (symbolic fraction 0.001..0.999) between the two crossings" % (k, dk),
                       max_paths=600, wall_s=300, ob_ms=30000, feas_ms=800, group=False))
    boxes = [((-3, -3, lib.Fr(1, 5)), (3, 3, lib.Fr(9, 5))), ((1, 1, lib.Fr(1, 5)), (6, 6, 4))] + ([((-6, -6, -3), (6, 6, lib.Fr(-1, 5)))] if T else [])
    for bi, bx in enumerate(boxes):
        us.append(Unit("nearby_faces-box%d" % bi, u_nearby_faces, params={"box": bx}, key="nearby_faces", functions=[F + "proximity.nearby_faces"],
                       bounds="two-triangle catalogue mesh x EVERY query point of the box %s..%s; kd-tree and r-tree replaced by their contracts" % (tuple(map(str, bx[0])), tuple(map(str, bx[1]))),
                       subspace="catalogue mesh x symbolic point", max_paths=200, wall_s=200, ob_ms=30000, feas_ms=800, group=False))
    for bi, bx in enumerate(boxes if T else []):
        us.append(Unit("proximity-mesh-box%d" % bi, u_proximity, params={"box": bx}, key="proximity", functions=[F + "proximity.closest_point", F + "proximity.nearby_faces", F + "triangles.closest_point"],
                       bounds="two-triangle catalogue mesh (a large slab and a small triangle above it) x EVERY query point of the box %s..%s; kd-tree and r-tree replaced by their contracts" % (tuple(map(str, bx[0])), tuple(map(str, bx[1]))),
                       subspace="catalogue mesh x symbolic point", max_paths=150, wall_s=900, ob_ms=30000, feas_ms=800, group=False))
    us.append(Unit("ray_bounds", u_ray_bounds, functions=[F + "ray.ray_triangle.ray_bounds"], bounds="EVERY ray (|o|<=100, some |d_i|>=0.1), EVERY tree box inside [-100,200]^3, EVERY ray parameter t in [1e-5,1000]", max_paths=400, wall_s=300, ob_ms=30000, feas_ms=800, group=False))
    return us


# ------------------------------------------------------------------------------------------------ proximity over a mesh (kd-tree / r-tree by contract)
PROX_MESH_V = [(-10, -10, 0), (10, -10, 0), (0, 10, 0), (0, 0, 2), (1, 0, 2), (0, 1, lib.Fr(5, 2))]
PROX_MESH_F = [[0, 1, 2], [3, 4, 5]]


class KDStub:
    """contract of cKDTree.query: distance to (and index of) the nearest stored point"""

    def __init__(self, pts, sym):
        self.sym = sym
        self.pts = np.asarray(nparr.base(pts) if sym else pts, dtype=object if sym else float)
        self.data = nparr.set_sd(nparr.wrap(self.pts.copy()), np.float64) if sym else self.pts  # documented attribute: the indexed points
        self.n, self.m = self.pts.shape

    def query(self, points, k=1, **kw):
        P = np.asarray(nparr.base(points) if self.sym else points, dtype=object if self.sym else float).reshape(-1, 3)
        dist, idx = [], []
        for p in P:
            best, bi = None, 0
            for i, v in enumerate(self.pts):
                d2 = lib.dot3([p[c] - v[c] for c in range(3)], [p[c] - v[c] for c in range(3)])
                if best is None or bool(d2 < best):
                    best, bi = d2, i
            dist.append(nparr.e_sqrt(best) if self.sym else float(np.sqrt(best)))
            idx.append(bi)
        d = np.array(dist, dtype=object if self.sym else float)
        return (nparr.set_sd(nparr.wrap(d), np.float64) if self.sym else d), np.array(idx)


def u_proximity(ctx):
    """proximity.closest_point over a two-triangle mesh: no point of ANY triangle is closer than the reported one"""
    import trimesh
    from trimesh import proximity

    V = np.array(PROX_MESH_V, dtype=object)
    Vr = nparr.set_sd(nparr.wrap(V.copy()), np.float64) if ctx.sym else np.array([[float(x) for x in r] for r in V])
    mesh = trimesh.Trimesh(vertices=Vr, faces=np.array(PROX_MESH_F), process=False)
    lo, hi = ctx.params["box"]
    p = [ctx.real("p%d" % i, lo[i], hi[i]) for i in range(3)]
    pts = np.array([p], dtype=object if ctx.sym else float)
    pts = nparr.set_sd(nparr.wrap(pts), np.float64) if ctx.sym else pts
    tris = mesh.triangles
    mesh._cache.cache["triangles_tree"] = TreeStub(nparr.set_sd(nparr.wrap(np.array(nparr.base(tris), dtype=object)), np.float64) if ctx.sym else np.asarray(tris), ctx.sym)
    orig = proximity.cKDTree
    proximity.cKDTree = (lambda data: KDStub(data, True)) if ctx.sym else orig
    try:
        close, dist, tid = proximity.closest_point(mesh, pts)
    finally:
        proximity.cKDTree = orig
    r = list(np.asarray(nparr.base(close) if ctx.sym else close).reshape(-1))
    dr = lib.dot3([r[i] - p[i] for i in range(3)], [r[i] - p[i] for i in range(3)])
    u = ctx.real("u", 0, 1)
    v = ctx.real("v", 0, 1)
    for k, f in enumerate(PROX_MESH_F):
        a, b, c = V[f[0]], V[f[1]], V[f[2]]
        if ctx.sym:
            q = [a[i] + u * (b[i] - a[i]) + v * (c[i] - a[i]) for i in range(3)]
            dq = lib.dot3([q[i] - p[i] for i in range(3)], [q[i] - p[i] for i in range(3)])
            # proximity.closest_point resolves candidates whose SQUARED distances differ by less than tol.merge = 1e-8 by a normal-direction rule:
            # 'closest' is claimed up to that documented tie tolerance
            ctx.true("no point of triangle %d is closer than the reported closest point" % k, l_or(u + v > 1, dq >= dr - 2e-8))
        else:
            ref = _closest_ref([float(x) for x in a], [float(x) for x in b], [float(x) for x in c], np.array(p, dtype=float))
            dref = float((ref - np.array(p, dtype=float)).dot(ref - np.array(p, dtype=float)))
            ctx.true("no point of triangle %d is closer than the reported closest point" % k, float(dr) <= dref + 2e-8 + 1e-9 * dref, "reported d2=%r, triangle %d has d2=%r" % (float(dr), k, dref))
    if ctx.sym:
        ctx.true("reported distance is the distance to the reported point", dist[0] * dist[0] == dr)
    else:
        ctx.true("reported distance is the distance to the reported point", abs(float(dist[0]) ** 2 - float(dr)) <= 1e-9 * (1 + float(dr)))


def u_nearby_faces(ctx):
    """pruning soundness of proximity.nearby_faces: a triangle left out of the candidates has no point as close as the nearest vertex,
    hence cannot contain the closest point"""
    import trimesh
    from trimesh import proximity

    V = np.array(PROX_MESH_V, dtype=object)
    Vr = nparr.set_sd(nparr.wrap(V.copy()), np.float64) if ctx.sym else np.array([[float(x) for x in r] for r in V])
    mesh = trimesh.Trimesh(vertices=Vr, faces=np.array(PROX_MESH_F), process=False)
    lo, hi = ctx.params["box"]
    p = [ctx.real("p%d" % i, lo[i], hi[i]) for i in range(3)]
    pts = np.array([p], dtype=object if ctx.sym else float)
    pts = nparr.set_sd(nparr.wrap(pts), np.float64) if ctx.sym else pts
    tris = mesh.triangles
    mesh._cache.cache["triangles_tree"] = TreeStub(nparr.set_sd(nparr.wrap(np.array(nparr.base(tris), dtype=object)), np.float64) if ctx.sym else np.asarray(tris), ctx.sym)
    orig = proximity.cKDTree
    proximity.cKDTree = (lambda data: KDStub(data, True)) if ctx.sym else orig
    try:
        cand = proximity.nearby_faces(mesh, pts)[0]
    finally:
        proximity.cKDTree = orig
    cand = sorted(int(c) for c in cand)
    ctx.concrete_equal("at least one candidate", len(cand) >= 1, True)
    # squared distance to the nearest vertex, by definition
    dv = None
    for vtx in V:
        d2 = lib.dot3([p[c] - vtx[c] for c in range(3)], [p[c] - vtx[c] for c in range(3)])
        dv = d2 if dv is None else (nparr.e_min(dv, d2) if ctx.sym else min(dv, d2))
    u = ctx.real("u", 0, 1)
    v = ctx.real("v", 0, 1)
    for k, f in enumerate(PROX_MESH_F):
        if k in cand:
            continue
        a, b, c = V[f[0]], V[f[1]], V[f[2]]
        if ctx.sym:
            q = [a[i] + u * (b[i] - a[i]) + v * (c[i] - a[i]) for i in range(3)]
            dq = lib.dot3([q[i] - p[i] for i in range(3)], [q[i] - p[i] for i in range(3)])
            ctx.true("pruned triangle %d has no point closer than the nearest vertex [candidates %s]" % (k, cand), l_or(u + v > 1, dq >= dv))
        else:
            ref = _closest_ref([float(x) for x in a], [float(x) for x in b], [float(x) for x in c], np.array(p, dtype=float))
            dref = float((ref - np.array(p, dtype=float)).dot(ref - np.array(p, dtype=float)))
            ctx.true("pruned triangle %d has no point closer than the nearest vertex [candidates %s]" % (k, cand), dref >= float(dv) - 1e-9, "triangle %d at d2=%r, nearest vertex d2=%r" % (k, dref, float(dv)))
