"""C11 -- plane sections lie on plane and surface; slices partition the surface."""
import numpy as np

from symx import lib, nparr
from symx.lib import l_and, l_not, l_or
from symx.harness import Unit

META = {
    "level": "other",
    "explanation": "The real intersections.mesh_plane / slice_faces_plane run on a real Trimesh whose vertex coordinates are z3 reals; the sign pattern of every vertex against the plane "
    "(below / within tol.merge / above) forks, so all ten triangle cases - including vertices exactly on the plane and edges in the plane - are paths; per path z3 (nlsat) decides that "
    "every returned point satisfies the plane equation and lies on an edge of its triangle, that a segment is returned iff the plane separates the vertices, that tetrahedron sections close, "
    "and that the vector areas of the two opposite slices add up to the original.",
    "assumptions": [
        "plane normals are unit vectors (mesh_plane compares the raw dot product with tol.merge): axis directions and a rational catalogue of oblique unit normals; offset symbolic",
        "coordinates |x| <= 1000; for slices every vertex is either exactly on the plane or at least 1e-6 away (the band (0,1e-8] where the code snaps vertices is excluded there)",
        "caps / cap volumes (shapely, earcut), the 2D projection of mesh_multiplane (plane_transform -> SVD, matrix inverse: stubbed; its 3D part IS checked with non-unit normals) and Trimesh.section's path assembly (align_vectors -> SVD, vertex merging) are not encodable and not claimed",
    ],
}

NORMALS = [
    (1, 0, 0), (0, 1, 0), (0, 0, 1),
    (lib.Fr(1, 3), lib.Fr(2, 3), lib.Fr(2, 3)), (lib.Fr(2, 7), lib.Fr(-3, 7), lib.Fr(6, 7)), (lib.Fr(-4, 9), lib.Fr(4, 9), lib.Fr(7, 9)), (lib.Fr(3, 5), 0, lib.Fr(4, 5)),
]
TOL_MERGE = 1e-8
# exact rational triangles for the oblique-normal sub-space (acute, right, obtuse, needle, two sharing a plane-parallel edge for normal 3)
TRIANGLES = [
    [(0, 0, 0), (3, 0, 1), (1, 4, 2)],
    [(-2, 1, 5), (4, 1, 5), (-2, 7, -3)],
    [(10, -3, 2), (-7, 5, 0), (1, 1, 1)],
    [(0, 0, 0), (100, 1, 0), (200, 2, lib.Fr(1, 10))],
    [(2, -1, 0), (0, 0, 0), (-2, 1, 3)],  # edge 0-1 is parallel to the planes with normal (1,2,2)/3
    [(lib.Fr(1, 2), lib.Fr(1, 3), lib.Fr(-5, 7)), (lib.Fr(9, 4), -6, 2), (-3, lib.Fr(22, 7), 8)],
]


def _tri_input(ctx, bound):
    """symbolic triangle (axis normals) or catalogue triangle (oblique normals)"""
    t = ctx.params.get("triangle")
    if t is None:
        return ctx.reals("v", (3, 3), -bound, bound)
    V = np.array(TRIANGLES[t], dtype=object)
    if ctx.params.get("flatten") is not None:
        V = V.copy()
        V[:, ctx.params["flatten"]] = 5  # the triangle lies in the plane e_k . x = 5
    return nparr.set_sd(nparr.wrap(V), np.float64) if ctx.sym else np.array([[float(x) for x in r] for r in V])



def _plane(ctx):
    n = NORMALS[ctx.params["normal"]]
    h = ctx.real("h", -1000, 1000)
    origin = [n[0] * h, n[1] * h, n[2] * h]
    if ctx.sym:
        nn = nparr.set_sd(nparr.wrap(np.array(n, dtype=object)), np.float64)
        oo = nparr.set_sd(nparr.wrap(np.array(origin, dtype=object)), np.float64)
    else:
        nn = np.array([float(v) for v in n])
        oo = np.array([float(v) for v in origin])
    return n, h, nn, oo


def _dot_plane(n, h, p):
    return n[0] * p[0] + n[1] * p[1] + n[2] * p[2] - h


def _on_segment(p, a, b):
    """p on the closed segment [a,b] (quantifier free)"""
    u = [b[i] - a[i] for i in range(3)]
    w = [p[i] - a[i] for i in range(3)]
    c = lib.cross3(w, u)
    dd = lib.dot3(w, u)
    return l_and(c[0] == 0, c[1] == 0, c[2] == 0, dd >= 0, dd <= lib.dot3(u, u))


def _near_segment(p, a, b, tol=1e-6):
    u = b - a
    w = p - a
    L2 = float(u.dot(u))
    if L2 == 0:
        return float(np.abs(w).max()) <= tol
    t = min(1.0, max(0.0, float(w.dot(u)) / L2))
    return float(np.abs(a + t * u - p).max()) <= tol * (1 + float(np.abs(p).max()))


def _lemmas(ctx, V, bound):
    """consequences of the coordinate bounds, stated explicitly so that the solver can discard the grazing-edge branch of plane_lines
    (|n.dir| <= 1e-13 needs an edge longer than 2e5): every squared edge length is at most 12*bound^2"""
    if not ctx.sym:
        return
    k = len(V)
    for i in range(k):
        for j in range(i + 1, k):
            u = [V[j][c] - V[i][c] for c in range(3)]
            ctx.assume(u[0] * u[0] + u[1] * u[1] + u[2] * u[2] <= 12 * bound * bound)


def u_section_triangle(ctx):
    import trimesh
    from trimesh import intersections

    V = _tri_input(ctx, 1000)
    n, h, nn, oo = _plane(ctx)
    mesh = trimesh.Trimesh(vertices=V, faces=np.array([[0, 1, 2]]), process=False)
    lines, fidx = intersections.mesh_plane(mesh, plane_normal=nn, plane_origin=oo, return_faces=True)
    lines = np.asarray(nparr.base(lines) if ctx.sym else lines).reshape(-1, 2, 3)
    d = [_dot_plane(n, h, V[i]) for i in range(3)]
    # coverage: exactly one segment iff the plane strictly separates the vertices and no edge lies in it (by the code's own tolerance classes)
    above = [x > TOL_MERGE for x in d]
    below = [x < -TOL_MERGE for x in d]
    on = [l_and(l_not(a), l_not(b)) for a, b in zip(above, below)]
    n_on = sum(1 for x in on if bool(x)) if not ctx.sym else None
    if ctx.sym:
        # the classification is concrete per path: read it back from the path by forking here too
        cls = [(1 if bool(a) else (-1 if bool(b) else 0)) for a, b in zip(above, below)]
    else:
        cls = [(1 if a else (-1 if b else 0)) for a, b in zip(above, below)]
    zeros = cls.count(0)
    separated = (1 in cls) and (-1 in cls)
    if zeros <= 1:
        ctx.concrete_equal("a segment is returned iff the plane separates the vertices (no edge in the plane) [signs %s]" % cls, len(lines), 1 if separated else 0)
    ctx.concrete_equal("face index of every segment", [int(i) for i in np.asarray(fidx).reshape(-1)], [0] * len(lines))
    # exact intersection set by definition: crossing edges give v_i + d_i/(d_i-d_j) (v_j - v_i); vertices in the tolerance band count as on the plane
    expected = []
    for i, j in ((0, 1), (1, 2), (2, 0)):
        if cls[i] * cls[j] < 0:
            t = d[i] / (d[i] - d[j])
            expected.append([V[i][c] + t * (V[j][c] - V[i][c]) for c in range(3)])
    for i in range(3):
        if cls[i] == 0:
            expected.append([V[i][c] for c in range(3)])
    for k, seg in enumerate(lines):
        for e in range(2):
            ctx.close("endpoint %d.%d satisfies the plane equation within tol.merge [signs %s]" % (k, e, cls), _dot_plane(n, h, seg[e]), 0, TOL_MERGE)
        if len(expected) == 2:
            q0, q1 = expected
            if ctx.sym:
                same = l_and(*[seg[0][c] == q0[c] for c in range(3)], *[seg[1][c] == q1[c] for c in range(3)])
                swap = l_and(*[seg[0][c] == q1[c] for c in range(3)], *[seg[1][c] == q0[c] for c in range(3)])
                ctx.true("segment %d = the exact intersection of the plane with the triangle (points on its edges) [signs %s]" % (k, cls), l_or(same, swap))
            else:
                tolp = 1e-7 * (1 + float(np.abs(seg).max()))
                q0, q1 = np.array(q0, dtype=float), np.array(q1, dtype=float)
                ok = (np.abs(seg[0] - q0).max() <= tolp and np.abs(seg[1] - q1).max() <= tolp) or (np.abs(seg[0] - q1).max() <= tolp and np.abs(seg[1] - q0).max() <= tolp)
                ctx.true("segment %d = the exact intersection of the plane with the triangle (points on its edges) [signs %s]" % (k, cls), bool(ok), "segment=%r expected=%r" % (seg, (q0, q1)))


class _NoProjection:
    """module-global stand-in used only while the multiplane unit runs: delegates to whatever `np` the engine planted, but
    `linalg.inv` returns its argument (the inverse only feeds the 2D projection of the result, which is NOT claimed)"""

    class _LA:
        @staticmethod
        def inv(m):
            return m

    def __init__(self, base):
        self._base = base
        self.linalg = self._LA()

    def __getattr__(self, k):
        return getattr(self._base, k)


def u_multiplane_triangle(ctx):
    """3D part of mesh_multiplane: for a NON-unit normal k*e and a height, the 3D segment handed to the 2D projection is the
    exact intersection of the triangle with the plane unit(n).(x - origin) = height"""
    import trimesh
    from trimesh import intersections

    V = _tri_input(ctx, 1000)
    ax, kk = ctx.params["normal"], ctx.params["scale"]
    e = NORMALS[ax]
    n = [e[i] * kk for i in range(3)]
    h = ctx.real("h", -1000, 1000)
    c = ctx.real("c", -100, 100)
    origin = [e[i] * c for i in range(3)]
    if ctx.sym:
        nn = nparr.set_sd(nparr.wrap(np.array(n, dtype=object)), np.float64)
        oo = nparr.set_sd(nparr.wrap(np.array(origin, dtype=object)), np.float64)
        hh = nparr.set_sd(nparr.wrap(np.array([h], dtype=object)), np.float64)
    else:
        nn, oo, hh = np.array([float(v) for v in n]), np.array([float(v) for v in origin]), np.array([float(h)])
    mesh = trimesh.Trimesh(vertices=V, faces=np.array([[0, 1, 2]]), process=False)
    captured = []
    saved = (intersections.np, intersections.geometry, intersections.tf)

    class _Geo:
        @staticmethod
        def plane_transform(origin, normal):
            return np.eye(4)

    class _Tf:
        @staticmethod
        def transform_points(points, matrix):
            captured.append(points)
            return np.zeros((len(points), 3))

    try:
        intersections.np = _NoProjection(saved[0])
        intersections.geometry = _Geo
        intersections.tf = _Tf
        segs, tfs, fidx = intersections.mesh_multiplane(mesh, plane_origin=oo, plane_normal=nn, heights=hh)
    finally:
        intersections.np, intersections.geometry, intersections.tf = saved
    ctx.concrete_equal("one projection call per height", len(captured), 1)
    lines = np.asarray(nparr.base(captured[0]) if ctx.sym else captured[0]).reshape(-1, 2, 3)
    off = c + h  # the requested plane: e . x = c + h (e is the unit normal)
    d = [_dot_plane(e, off, V[i]) for i in range(3)]
    above = [x > TOL_MERGE for x in d]
    below = [x < -TOL_MERGE for x in d]
    cls = [(1 if bool(a) else (-1 if bool(b) else 0)) for a, b in zip(above, below)]
    zeros = cls.count(0)
    separated = (1 in cls) and (-1 in cls)
    if zeros <= 1:
        ctx.concrete_equal("multiplane: a segment is returned iff the requested plane separates the vertices [signs %s]" % cls, len(lines), 1 if separated else 0)
    ctx.concrete_equal("multiplane: face index of every segment", [int(i) for i in np.asarray(fidx[0]).reshape(-1)], [0] * len(lines))
    expected = []
    for i, j in ((0, 1), (1, 2), (2, 0)):
        if cls[i] * cls[j] < 0:
            t = d[i] / (d[i] - d[j])
            expected.append([V[i][q] + t * (V[j][q] - V[i][q]) for q in range(3)])
    for i in range(3):
        if cls[i] == 0:
            expected.append([V[i][q] for q in range(3)])
    for k, seg in enumerate(lines):
        for en in range(2):
            ctx.close("multiplane: endpoint %d.%d lies on the requested plane within tol.merge [signs %s]" % (k, en, cls), _dot_plane(e, off, seg[en]), 0, TOL_MERGE)
        if len(expected) == 2:
            q0, q1 = expected
            if ctx.sym:
                same = l_and(*[seg[0][q] == q0[q] for q in range(3)], *[seg[1][q] == q1[q] for q in range(3)])
                swap = l_and(*[seg[0][q] == q1[q] for q in range(3)], *[seg[1][q] == q0[q] for q in range(3)])
                ctx.true("multiplane: segment %d = exact intersection of the requested plane with the triangle [signs %s]" % (k, cls), l_or(same, swap))
            else:
                tolp = 1e-7 * (1 + float(np.abs(seg).max()))
                q0, q1 = np.array(q0, dtype=float), np.array(q1, dtype=float)
                ok = (np.abs(seg[0] - q0).max() <= tolp and np.abs(seg[1] - q1).max() <= tolp) or (np.abs(seg[0] - q1).max() <= tolp and np.abs(seg[1] - q0).max() <= tolp)
                ctx.true("multiplane: segment %d = exact intersection of the requested plane with the triangle [signs %s]" % (k, cls), bool(ok), "segment=%r expected=%r" % (seg, (q0, q1)))


FACES_TET = np.array([[0, 2, 1], [0, 1, 3], [1, 2, 3], [0, 3, 2]])


def u_section_tetra(ctx):
    """general position: the section of a tetrahedron is one closed loop (every endpoint is shared by exactly two segments)"""
    import trimesh
    from trimesh import intersections

    TETS = [[(0, 0, 0), (4, 0, 1), (1, 5, 0), (2, 1, 6)], [(-3, 2, 1), (5, -1, 2), (0, 7, -2), (1, 1, 9)], [(lib.Fr(1, 2), 0, 0), (0, lib.Fr(7, 3), 1), (-2, -1, lib.Fr(5, 4)), (3, 3, -4)]]
    V = np.array(TETS[ctx.params["tet"]], dtype=object)
    # consistent outward winding is not needed for sections; orientation of FACES_TET is irrelevant here
    V = nparr.set_sd(nparr.wrap(V), np.float64) if ctx.sym else np.array([[float(x) for x in r] for r in V])
    n, h, nn, oo = _plane(ctx)
    d = [_dot_plane(n, h, V[i]) for i in range(4)]
    for x in d:
        ctx.assume(l_or(x >= 1e-3, x <= -1e-3))
    mesh = trimesh.Trimesh(vertices=V, faces=FACES_TET.copy(), process=False)
    lines, fidx = intersections.mesh_plane(mesh, plane_normal=nn, plane_origin=oo, return_faces=True)
    lines = np.asarray(nparr.base(lines) if ctx.sym else lines).reshape(-1, 2, 3)
    cls = [1 if bool(x > 0) else -1 for x in d]
    npos = cls.count(1)
    ctx.concrete_equal("number of segments (3 for a corner cut, 4 for a 2-2 cut, 0 otherwise) [signs %s]" % cls, len(lines), {0: 0, 4: 0, 1: 3, 3: 3, 2: 4}[npos])
    pts = [(k, e, lines[k][e]) for k in range(len(lines)) for e in range(2)]
    for k, e, p in pts:
        others = [q for (k2, e2, q) in pts if k2 != k]
        if ctx.sym:
            match = [l_and(p[0] == q[0], p[1] == q[1], p[2] == q[2]) for q in others]
            # exactly one other segment shares this endpoint
            from symx.lib import l_count

            ctx.true("endpoint %d.%d is shared with exactly one other segment [signs %s]" % (k, e, cls), l_count(match) == 1)
        else:
            cnt = sum(1 for q in others if float(np.abs(q - p).max()) <= 1e-7 * (1 + float(np.abs(p).max())))
            ctx.true("endpoint %d.%d is shared with exactly one other segment [signs %s]" % (k, e, cls), cnt == 1, "count=%d" % cnt)
        ctx.close("endpoint %d.%d on the plane" % (k, e), _dot_plane(n, h, p), 0, TOL_MERGE)


def _vec_area(verts, faces):
    tot = [0, 0, 0]
    for f in faces:
        a, b, c = verts[int(f[0])], verts[int(f[1])], verts[int(f[2])]
        cr = lib.cross3([b[i] - a[i] for i in range(3)], [c[i] - a[i] for i in range(3)])
        tot = [tot[i] + cr[i] for i in range(3)]
    return tot


def u_slice_triangle(ctx):
    """the two opposite slices of a triangle partition it: vector areas add up, every piece lies on its side"""
    from trimesh import intersections

    V = _tri_input(ctx, 1000)
    n, h, nn, oo = _plane(ctx)
    d = [_dot_plane(n, h, V[i]) for i in range(3)]
    for x in d:
        ctx.assume(l_or(x == 0, x >= 1e-6, x <= -1e-6))
    mode = ctx.params.get("mode")
    if mode == "general":
        for x in d:
            ctx.assume(x != 0)
    elif mode in ("on0", "on1", "on2"):
        k = int(mode[2])
        for i, x in enumerate(d):
            ctx.assume(x == 0 if i == k else x != 0)
    elif mode in ("edge01", "edge12", "edge02"):
        on = (int(mode[4]), int(mode[5]))
        for i, x in enumerate(d):
            ctx.assume(x == 0 if i in on else x != 0)
    elif mode == "face":
        for x in d:
            ctx.assume(x == 0)
    faces = np.array([[0, 1, 2]])
    pv, pf, _ = intersections.slice_faces_plane(V, faces, plane_normal=nn, plane_origin=oo)
    nv, nf, _ = intersections.slice_faces_plane(V, faces, plane_normal=-nn, plane_origin=oo)
    pv = np.asarray(nparr.base(pv) if ctx.sym else pv).reshape(-1, 3)
    nv = np.asarray(nparr.base(nv) if ctx.sym else nv).reshape(-1, 3)
    pf = np.asarray(pf).reshape(-1, 3)
    nf = np.asarray(nf).reshape(-1, 3)
    cls = [(1 if bool(x > 0) else (-1 if bool(x < 0) else 0)) for x in d]
    ctx.concrete_equal("faces index existing vertices", (int(pf.max()) < len(pv)) if len(pf) else True, True)
    ctx.concrete_equal("faces index existing vertices (negative side)", (int(nf.max()) < len(nv)) if len(nf) else True, True)
    orig = _vec_area(V, faces)
    pa, na = _vec_area(pv, pf), _vec_area(nv, nf)
    if cls != [0, 0, 0]:
        ctx.eq("vector area of the positive slice + negative slice = original [signs %s]" % cls, [pa[i] + na[i] for i in range(3)], orig)
    else:
        # a triangle lying in the plane belongs to exactly one side (decided by its normal): never counted twice
        ctx.true("in-plane triangle is not counted twice [signs %s]" % cls, l_or(l_and(pa[0] == 0, pa[1] == 0, pa[2] == 0), l_and(na[0] == 0, na[1] == 0, na[2] == 0)))
    for k in range(len(pv)):
        ctx.true("positive slice vertex %d is on the positive side [signs %s]" % (k, cls), _dot_plane(n, h, pv[k]) >= -1e-9)
    for k in range(len(nv)):
        ctx.true("negative slice vertex %d is on the negative side [signs %s]" % (k, cls), _dot_plane(n, h, nv[k]) <= 1e-9)


F = "trimesh.intersections."


def units(tier):
    T = tier == "thorough"
    us = []
    fs = [F + "mesh_plane", F + "plane_lines", "trimesh.grouping.unique_value_in_row", "trimesh.util.unitize"]
    fl = [F + "slice_faces_plane", "trimesh.geometry.triangulate_quads", "trimesh.grouping.unique_bincount", "trimesh.triangles.normals"]
    for k in (0, 1, 2):
        us.append(Unit("section-triangle-axis%d" % k, u_section_triangle, params={"normal": k}, key="section-triangle", functions=fs,
                       bounds="EVERY triangle |x|<=1000 x axis normal e%d x every offset; all 27 sign patterns incl. vertices exactly on the plane" % k, subspace="A: symbolic triangle x axis normal x symbolic offset", max_paths=400, wall_s=300, ob_ms=30000, feas_ms=800, group=False))
        for mode in ("general", "on0", "on1", "on2", "edge01", "edge12", "edge02"):
            us.append(Unit("slice-triangle-axis%d-%s" % (k, mode), u_slice_triangle, params={"normal": k, "mode": mode}, key="slice-triangle", functions=fl,
                           bounds="EVERY triangle |x|<=1000 with vertices %s (other vertices >= 1e-6 away) x axis normal e%d x every offset" % ({"general": "all off the plane", "on0": "0 exactly on the plane", "on1": "1 exactly on the plane", "on2": "2 exactly on the plane", "edge01": "0,1 exactly on the plane", "edge12": "1,2 exactly on the plane", "edge02": "0,2 exactly on the plane"}[mode], k),
                           subspace="A: symbolic triangle x axis normal x symbolic offset", max_paths=1500, wall_s=400, ob_ms=30000, feas_ms=800, group=False))
    for k, sc in ((2, 2), (0, lib.Fr(1, 2)), (1, 3)):
        us.append(Unit("multiplane-triangle-axis%d-scaled" % k, u_multiplane_triangle, params={"normal": k, "scale": sc}, key="multiplane-triangle", functions=[F + "mesh_multiplane", F + "mesh_plane", F + "plane_lines", "trimesh.util.unitize"],
                       bounds="3D part of mesh_multiplane only (plane_transform / inverse / 2D projection stubbed, not claimed): EVERY triangle |x|<=1000 x NON-unit normal %s*e%d x every origin offset |c|<=100 along the normal x every height |h|<=1000 (one height per call)" % (sc, k),
                       subspace="A: symbolic triangle x scaled axis normal x symbolic origin and height", max_paths=400, wall_s=300, ob_ms=30000, feas_ms=800, group=False))
    combos = [(3, 0), (3, 4), (4, 1), (5, 2), (6, 5), (4, 3)] if not T else [(nk, t) for nk in (3, 4, 5, 6) for t in range(len(TRIANGLES))]
    for nk, t in combos:
        us.append(Unit("section-triangle-oblique%d-tri%d" % (nk, t), u_section_triangle, params={"normal": nk, "triangle": t}, key="section-triangle", functions=fs,
                       bounds="catalogue triangle %d x oblique unit normal %d x EVERY offset" % (t, nk), subspace="B: catalogue triangle x catalogue oblique normal x symbolic offset", max_paths=200, wall_s=200, ob_ms=20000, feas_ms=800, group=False))
        us.append(Unit("slice-triangle-oblique%d-tri%d" % (nk, t), u_slice_triangle, params={"normal": nk, "triangle": t}, key="slice-triangle", functions=fl,
                       bounds="catalogue triangle %d x oblique unit normal %d x EVERY offset" % (t, nk), subspace="B: catalogue triangle x catalogue oblique normal x symbolic offset", max_paths=200, wall_s=200, ob_ms=20000, feas_ms=800, group=False))
    for k, tet in (((2, 0), (3, 1), (0, 2), (5, 0)) if not T else [(k, t) for k in range(len(NORMALS)) for t in range(3)]):
        us.append(Unit("section-tetrahedron-normal%d-tet%d" % (k, tet), u_section_tetra, params={"normal": k, "tet": tet}, key="section-tetra", functions=[F + "mesh_plane", F + "plane_lines"],
                       bounds="catalogue tetrahedron %d x unit normal %d x EVERY offset at which all vertices are >= 1e-3 from the plane: the section is one closed loop of 3 or 4 segments" % (tet, k), subspace="C: catalogue tetrahedron x normal catalogue x symbolic offset (closedness for general meshes follows from the per-triangle exact-intersection obligations of sub-space A: both faces of an edge compute the same point)", max_paths=200, wall_s=200, ob_ms=20000, feas_ms=800, group=False))
    for k in (0, 1, 2):
        for t in ((0, 4) if not T else range(len(TRIANGLES))):
            us.append(Unit("slice-triangle-axis%d-inplane-tri%d" % (k, t), u_slice_triangle, params={"normal": k, "mode": "face", "triangle": t, "flatten": k}, key="slice-triangle", functions=fl,
                           bounds="catalogue triangle %d flattened into the plane x axis normal e%d: a triangle lying in the plane is kept by exactly one side" % (t, k), max_paths=50, wall_s=100, ob_ms=20000, feas_ms=800, group=False))
    return us
