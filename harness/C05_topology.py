"""C05 -- topological queries equal their combinatorial definitions."""
import itertools

import numpy as np

from symx import nparr
from symx.lib import l_and, l_count, l_iff, l_not, l_or
from symx.harness import Unit as _Unit


def Unit(*a, **k):
    k.setdefault("opts", {"int_zeros_object": True})
    return _Unit(*a, **k)


META = {
    "level": "other",
    "explanation": "Vertex ids are only compared, sorted and packed by the edge pipeline, so they stay SYMBOLIC 64-bit words (any magnitude) and every comparison forks; the real geometry.faces_to_edges / "
    "graph.face_adjacency / graph.is_watertight / grouping code runs on them and z3 decides, per path, that the answer equals the definition obtained by direct counting on the faces. Functions that index "
    "by vertex id (vertex_faces, vertex_neighbors, referenced vertices, Euler number through a Trimesh) run on ids from a small range by solver-driven forks.",
    "assumptions": [
        "2 faces with arbitrary int64 ids (all equality / order patterns incl. repeated ids within a face, repeated faces); 3 faces with ids < 3; tetrahedron family with arbitrary per-face winding and duplicated faces (concrete ids)",
        "the order in which adjacent pairs / unique edges are listed is not part of the claim (compared as sets); scipy / networkx component back-ends run concretely on face positions",
    ],
}


def _pair_eq(a, b):
    """unordered pair equality"""
    return l_or(l_and(a[0] == b[0], a[1] == b[1]), l_and(a[0] == b[1], a[1] == b[0]))


def _edges_of(F):
    """directed edges in the library's order: (f0,f1),(f1,f2),(f2,f0) per face"""
    out = []
    for fi, f in enumerate(F):
        for (i, j) in ((0, 1), (1, 2), (2, 0)):
            out.append((fi, (f[i], f[j])))
    return out


def u_edges(ctx):
    from trimesh import geometry, graph, grouping

    n = ctx.params["n"]
    if ctx.params.get("sort") == "int":
        F = ctx.ints("f", (n, 3), 0, 2**20)  # Int arithmetic, ids below 2^20 (inside the 2-column packing range)
        if ctx.params.get("face0") is not None:
            # first face concrete (every shape of a face up to renaming: distinct / two equal in each position / all equal), second face symbolic
            F0 = nparr.base(F).copy() if ctx.sym else np.array(F).copy()
            for j, v in enumerate(ctx.params["face0"]):
                F0[0, j] = v
            F = nparr.set_sd(nparr.wrap(F0), np.int64) if ctx.sym else F0
    else:
        F = ctx.bvs("f", (n, 3)) if ctx.params.get("ids") is None else ctx.ints("f", (n, 3), 0, ctx.params["ids"] - 1)
    if ctx.params.get("ids") is not None and ctx.sym:
        # ids from a small range: resolve them (solver-driven enumeration), the pipeline then runs on concrete int64 like in production
        F = np.array([[int(x) for x in r] for r in nparr.base(F)], dtype=np.int64)
    E = _edges_of(F)
    edges, edges_face = geometry.faces_to_edges(F, return_index=True)
    ctx.eq("faces_to_edges", np.asarray(nparr.base(edges) if isinstance(edges, nparr.SymArray) else edges).reshape(-1), [x for _, e in E for x in e])
    ctx.concrete_equal("faces_to_edges face index", [int(i) for i in np.asarray(edges_face).reshape(-1)], [fi for fi, _ in E])
    # --- face adjacency
    adj, adj_edges = graph.face_adjacency(faces=F, return_edges=True)
    adj = [tuple(int(x) for x in r) for r in np.asarray(adj).reshape(-1, 2)]
    adj_edges = np.asarray(nparr.base(adj_edges) if isinstance(adj_edges, nparr.SymArray) else adj_edges).reshape(-1, 2)
    ctx.concrete_equal("adjacency pairs are sorted, distinct faces", all(a < b for a, b in adj), True)
    # definition: a sorted edge occurring exactly twice, in two different faces, makes those faces adjacent (with that edge)
    conds = []
    m = len(E)
    for x in range(m):
        for y in range(x + 1, m):
            fx, ex = E[x]
            fy, ey = E[y]
            cnt = l_count([_pair_eq(ex, E[z][1]) for z in range(m)])
            is_adj = l_and(_pair_eq(ex, ey), cnt == 2, fx != fy)
            # completeness: such a pair is reported (soundness of every reported row is the next block)
            if fx != fy:
                reported = l_or(*[_pair_eq(adj_edges[k], ex) for k in range(len(adj)) if adj[k] == (min(fx, fy), max(fx, fy))])
                conds.append(l_or(l_not(is_adj), reported))
    for k in range(len(adj)):
        # every reported row is justified by some occurrence pair
        just = []
        for x in range(m):
            for y in range(x + 1, m):
                fx, ex = E[x]
                fy, ey = E[y]
                if (min(fx, fy), max(fx, fy)) == adj[k] and fx != fy:
                    cnt = l_count([_pair_eq(ex, E[z][1]) for z in range(m)])
                    just.append(l_and(_pair_eq(ex, ey), cnt == 2, _pair_eq(adj_edges[k], ex)))
        conds.append(l_or(*just) if just else False)
    # no duplicates among the reported (pair, edge) rows
    for a in range(len(adj)):
        for b in range(a + 1, len(adj)):
            if adj[a] == adj[b]:
                conds.append(l_not(_pair_eq(adj_edges[a], adj_edges[b])))
    ctx.true("face_adjacency = pairs of different faces sharing an edge that occurs exactly twice (with that edge)", l_and(*conds))
    # --- watertight / winding
    es = np.sort(np.asarray(nparr.base(edges) if isinstance(edges, nparr.SymArray) else edges).reshape(-1, 2), axis=1) if not isinstance(edges, nparr.SymArray) else nparr.sym_sort(edges.reshape(-1, 2), axis=1)
    wt, wc = graph.is_watertight(edges, es)
    every_twice = l_and(*[l_count([_pair_eq(E[x][1], E[z][1]) for z in range(m)]) == 2 for x in range(m)])
    ctx.true("is_watertight = every undirected edge occurs exactly twice", l_iff(bool(wt), every_twice))
    # winding: among edges occurring exactly twice, the two occurrences run in opposite directions
    opp = []
    for x in range(m):
        for y in range(x + 1, m):
            ex, ey = E[x][1], E[y][1]
            cnt = l_count([_pair_eq(ex, E[z][1]) for z in range(m)])
            opp.append(l_or(l_not(l_and(_pair_eq(ex, ey), cnt == 2)), l_and(ex[0] == ey[1], ex[1] == ey[0])))
    ctx.true("winding consistent (for a watertight edge set) = every doubly used edge is traversed once in each direction", l_or(l_not(every_twice), l_iff(bool(wc), l_and(*opp))))
    # --- unique edges
    uniq, inv = grouping.unique_rows(es)
    uniq = [int(i) for i in uniq]
    conds = []
    for a in range(len(uniq)):
        for b in range(a + 1, len(uniq)):
            conds.append(l_not(_pair_eq(E[uniq[a]][1], E[uniq[b]][1])))
    for x in range(m):
        conds.append(_pair_eq(E[uniq[int(inv[x])]][1], E[x][1]))
    ctx.true("unique edges: representatives pairwise different, every edge maps to its representative", l_and(*conds))


def _tet_family(k):
    """tetrahedron with per-face winding flips given by the bits of k (0..15) and optionally a duplicated / degenerate face"""
    base = [[0, 2, 1], [0, 1, 3], [1, 2, 3], [0, 3, 2]]
    F = []
    for i, f in enumerate(base):
        F.append(f[::-1] if (k >> i) & 1 else f)
    return F


def u_mesh_topology(ctx):
    """Trimesh-level queries on small id ranges / concrete families, against direct counting"""
    import trimesh

    fam = ctx.params["family"]
    if fam == "small":
        n, K = ctx.params["n"], ctx.params["ids"]
        Fs = ctx.ints("f", (n, 3), 0, K - 1)
        F = np.array([[int(x) for x in r] for r in (nparr.base(Fs) if ctx.sym else Fs)], dtype=np.int64)
        nv = K + 1  # one unreferenced vertex
    else:
        k = ctx.choice("wind", 16)
        extra = ctx.choice("extra", 4)
        F = _tet_family(k)
        if extra == 1:
            F = F + [F[0]]  # repeated face
        elif extra == 2:
            F = F + [[1, 1, 2]]  # degenerate face
        elif extra == 3:
            F = F[:3]  # open
        F = np.array(F, dtype=np.int64)
        nv = 5
    V = np.array([[i, i * i % 7, (3 * i) % 5] for i in range(nv)], dtype=float)
    m = trimesh.Trimesh(vertices=V, faces=F, process=False)
    faces = F.tolist()
    und = [tuple(sorted((f[i], f[j]))) for f in faces for (i, j) in ((0, 1), (1, 2), (2, 0))]
    dire = [(f[i], f[j]) for f in faces for (i, j) in ((0, 1), (1, 2), (2, 0))]
    eface = [fi for fi, f in enumerate(faces) for _ in range(3)]
    from collections import Counter

    cnt = Counter(und)
    ctx.concrete_equal("edges", np.asarray(m.edges).tolist(), [list(e) for e in dire])
    ctx.concrete_equal("edges_sorted", np.asarray(m.edges_sorted).tolist(), [list(e) for e in und])
    ctx.concrete_equal("edges_unique (as a set)", sorted(map(tuple, np.asarray(m.edges_unique).tolist())), sorted(set(und)))
    ctx.concrete_equal("is_watertight", bool(m.is_watertight), all(c == 2 for c in cnt.values()))
    pairs = {}
    for idx, e in enumerate(und):
        pairs.setdefault(e, []).append(idx)
    exp_adj = sorted((min(eface[a], eface[b]), max(eface[a], eface[b]), e) for e, (ab) in ((e, v) for e, v in pairs.items() if len(v) == 2) for a, b in [ab] if eface[a] != eface[b])
    got_adj = sorted((int(a), int(b), tuple(int(x) for x in e)) for (a, b), e in zip(np.asarray(m.face_adjacency).reshape(-1, 2), np.asarray(m.face_adjacency_edges).reshape(-1, 2)))
    ctx.concrete_equal("face_adjacency with shared edges (as a set)", got_adj, exp_adj)
    if all(c == 2 for c in cnt.values()):
        consistent = all(dire[a] == dire[b][::-1] for e, (a, b) in ((e, v) for e, v in pairs.items()))
        ctx.concrete_equal("is_winding_consistent", bool(m.is_winding_consistent), consistent)
    ref = sorted(set(x for f in faces for x in f))
    ctx.concrete_equal("euler_number = V_referenced - E_unique + F", int(m.euler_number), len(ref) - len(set(und)) + len(faces))
    ctx.concrete_equal("vertex_degree = number of incident faces (with multiplicity)", [int(x) for x in m.vertex_degree], [sum(f.count(v) for f in faces) for v in range(nv)])
    exp_nb = [sorted(set(b if a == v else a for (a, b) in set(und) if v in (a, b) and a != b)) for v in range(nv)]
    ctx.concrete_equal("vertex_neighbors (self loops of degenerate faces ignored)", [sorted(int(x) for x in nb if int(x) != v) for v, nb in enumerate(m.vertex_neighbors)], exp_nb)
    exp_vf = [sorted(fi for fi, f in enumerate(faces) if v in f) for v in range(nv)]
    ctx.concrete_equal("vertex_faces (as sets)", [sorted(set(int(x) for x in row if x >= 0)) for row in np.asarray(m.vertex_faces)], exp_vf)
    # connected components of the face adjacency graph
    parent = list(range(len(faces)))

    def find(x):
        while parent[x] != x:
            parent[x] = parent[parent[x]]
            x = parent[x]
        return x

    for a, b, _ in exp_adj:
        parent[find(a)] = find(b)
    comps = sorted(sorted(i for i in range(len(faces)) if find(i) == r) for r in set(find(i) for i in range(len(faces))))
    for engine in ("scipy", "networkx"):
        from trimesh import graph

        got = graph.connected_components(np.asarray(m.face_adjacency), nodes=np.arange(len(faces)), min_len=1, engine=engine)
        ctx.concrete_equal("connected components of faces (%s)" % engine, sorted(sorted(int(x) for x in c) for c in got), comps)
    # body_count is documented as the number of connected VERTEX groups (isolated vertices count)
    vp = list(range(nv))

    def vfind(x):
        while vp[x] != x:
            vp[x] = vp[vp[x]]
            x = vp[x]
        return x

    for a, b in set(und):
        vp[vfind(a)] = vfind(b)
    ctx.concrete_equal("body_count = connected groups of the vertex graph", int(m.body_count), len(set(vfind(i) for i in range(nv))))


def u_angle_defects(ctx):
    """on closed manifolds the vertex angle defects sum to 2 pi chi for ALL corner angles: the code sums 2 pi - incident angles per vertex"""
    import trimesh

    cat = {
        "tetrahedron": ([(0, 0, 0), (1, 0, 0), (0, 1, 0), (0, 0, 1)], [[0, 2, 1], [0, 1, 3], [1, 2, 3], [0, 3, 2]]),
        "octahedron": ([(1, 0, 0), (-1, 0, 0), (0, 1, 0), (0, -1, 0), (0, 0, 1), (0, 0, -1)], [[0, 2, 4], [2, 1, 4], [1, 3, 4], [3, 0, 4], [2, 0, 5], [1, 2, 5], [3, 1, 5], [0, 3, 5]]),
    }
    V, F = cat[ctx.params["shape"]]
    m = trimesh.Trimesh(vertices=np.array(V, dtype=float), faces=np.array(F), process=False)
    total = float(np.sum(m.vertex_defects))
    chi = len(V) - len(m.edges_unique) + len(F)
    ctx.eq("sum of vertex defects = 2 pi chi (%s)" % ctx.params["shape"], total, 2 * np.pi * chi)


F_ = "trimesh."
FUN = [F_ + "geometry.faces_to_edges", F_ + "graph.face_adjacency", F_ + "graph.is_watertight", F_ + "grouping.group_rows", F_ + "grouping.hashable_rows", F_ + "grouping.unique_rows"]
FUN2 = FUN + [F_ + "base.Trimesh.edges", "Trimesh.edges_sorted", "Trimesh.edges_unique", "Trimesh.face_adjacency", "Trimesh.face_adjacency_edges", "Trimesh.euler_number", "Trimesh.vertex_degree", "Trimesh.vertex_neighbors", "Trimesh.vertex_faces",
              "Trimesh.body_count", "Trimesh.is_watertight", "Trimesh.is_winding_consistent", F_ + "graph.connected_components", F_ + "geometry.vertex_face_indices", F_ + "geometry.index_sparse"]


def units(tier):
    T = tier == "thorough"
    us = [
        Unit("edges-1face-any-ids", u_edges, params={"n": 1}, key="edges", functions=FUN, bounds="1 face, ids any int64 (symbolic 64-bit words)", max_paths=2000, wall_s=200, group=False),
    ] + [
        Unit("edges-2faces-face0=%s" % "".join(map(str, f0)), u_edges, params={"n": 2, "sort": "int", "face0": f0}, key="edges", functions=FUN,
             bounds="face 0 = %s (one representative of each face shape), face 1 = any three integers in [0, 2^20] (z3 Int): every equality / order pattern against face 0" % (f0,), max_paths=6000, wall_s=280, group=False)
        for f0 in ((5, 9, 7), (5, 5, 9), (5, 9, 5), (9, 5, 5), (5, 5, 5))
    ] + ([Unit("edges-2faces-ids<2^20", u_edges, params={"n": 2, "sort": "int"}, key="edges", functions=FUN, bounds="2 faces, ids any integer in [0, 2^20] (z3 Int): every equality / order pattern", max_paths=30000, wall_s=1500, group=False)] if T else []) + [
        Unit("mesh-2faces-ids<4", u_mesh_topology, params={"family": "small", "n": 2, "ids": 4}, key="mesh-topology", functions=FUN2, bounds="2 faces, ids < 4 (+1 unreferenced vertex): all 4096 face arrays by solver-driven forks", max_paths=5000, wall_s=400, group=False),
        Unit("mesh-tetrahedron-family", u_mesh_topology, params={"family": "tet"}, key="mesh-topology", functions=FUN2, bounds="tetrahedron with every per-face winding (16) x {plain, repeated face, degenerate face, one face removed}", max_paths=200, wall_s=300, group=False),
        Unit("angle-defects-tetrahedron", u_angle_defects, params={"shape": "tetrahedron"}, key="defects", functions=[F_ + "curvature.vertex_defects", F_ + "triangles.angles"], bounds="catalogue closed manifold (concrete instance, no symbolic input)", opts={"concrete_only": True}),
        Unit("angle-defects-octahedron", u_angle_defects, params={"shape": "octahedron"}, key="defects", functions=[F_ + "curvature.vertex_defects", F_ + "triangles.angles"], bounds="catalogue closed manifold (concrete instance, no symbolic input)", opts={"concrete_only": True}),
    ]
    if T:
        us.append(Unit("mesh-3faces-ids<3", u_mesh_topology, params={"family": "small", "n": 3, "ids": 3}, key="mesh-topology", functions=FUN2, bounds="3 faces, ids < 3: all 19683 face arrays by solver-driven forks", max_paths=25000, wall_s=1500, group=False))
    return us
