"""C06 -- row grouping and uniqueness primitives are exact."""
import numpy as np

from symx import nparr
from symx.lib import l_and, l_count, l_iff, l_not, l_or
from symx.harness import Unit as _Unit


def Unit(*a, **k):
    k.setdefault("opts", {"int_zeros_object": True})
    return _Unit(*a, **k)

META = {
    "level": "other",
    "explanation": "The real trimesh.grouping functions are executed on arrays of symbolic 64-bit machine integers (z3 bit-vectors with numpy int64 wrap-around semantics: "
    "values below, at and above 2^15, 2^20, 2^31, 2^63-1 are interior points of the domain) and on symbolic reals (float rows); sorting forks on comparisons; "
    "z3 decides per path that the returned grouping equals element-by-element comparison.",
    "assumptions": [
        "np.void views compare equal iff the underlying int64 rows are equal, and order like the row tuples (numpy contract; stub `RowKey`)",
        "np.round is round-half-to-even on the exact real; float rows are compared after float_to_int exactly as the code rounds them",
    ],
}


def _row_eq(a, b):
    return l_and(*[x == y for x, y in zip(a, b)])


def u_hashable_rows(ctx):
    """bit packing is injective whenever the code's own range check admits the data (1..4 columns), fallback is row equality"""
    from trimesh import grouping as G

    m = ctx.params["cols"]
    D = ctx.bvs("d", (2, m))
    h = G.hashable_rows(D)
    ctx.true("hash equal <=> rows equal (%d cols)" % m, l_iff(h[0] == h[1], _row_eq(D[0], D[1])))
    if ctx.sym:
        ctx.note("kind:%s" % type(nparr.base(h)[0]).__name__)


def u_hashable_rows_packed(ctx):
    """same, restricted to data strictly inside the code's packing range (the interesting region for lane overlap)"""
    from trimesh import grouping as G

    m = ctx.params["cols"]
    precision = 64 // m
    lim = (1 << (precision - 1)) - 2  # largest magnitude strictly inside the code's open range check
    D = ctx.bvs("d", (2, m))
    for v in (D.reshape(-1) if ctx.sym else D.reshape(-1)):
        ctx.assume((v <= lim) & (v >= -lim))
    h = G.hashable_rows(D)
    ctx.true("packed: equal <=> rows equal (%d cols)" % m, l_iff(h[0] == h[1], _row_eq(D[0], D[1])))


def _partition_ok(ctx, name, groups, n, same, require=None, min_len=None, max_len=None):
    """groups (concrete index lists) must be exactly the equivalence classes of `same` that satisfy the length filter"""
    groups = [list(map(int, g)) for g in groups]
    flat = [i for g in groups for i in g]
    ok_struct = len(flat) == len(set(flat)) and all(0 <= i < n for i in flat)
    ctx.concrete_equal(name + ": indices valid and disjoint", ok_struct, True)
    if not ok_struct:
        return
    member = {}
    for gi, g in enumerate(groups):
        for i in g:
            member[i] = gi
    conds = []
    for i in range(n):
        size = l_count([same(i, j) for j in range(n)])  # class size of i by direct counting
        want = True
        if require is not None:
            want = l_and(want, size == require)
        if min_len is not None:
            want = l_and(want, size >= min_len)
        if max_len is not None:
            want = l_and(want, size <= max_len)
        if i in member:
            conds.append(want)
            g = groups[member[i]]
            for j in range(n):  # everything equal to i is in i's group and nothing else
                conds.append(same(i, j) if j in g else l_not(same(i, j)))
        else:
            conds.append(l_not(want))
    ctx.true(name + ": groups are exactly the classes of equal elements passing the length filter", l_and(*conds))


def u_group(ctx):
    from trimesh import grouping as G

    n = ctx.params["n"]
    v = ctx.bvs("v", n)
    mn = ctx.params.get("min_len")
    mx = ctx.params.get("max_len")
    groups = G.group(v, min_len=mn, max_len=mx)
    _partition_ok(ctx, "group(min_len=%r,max_len=%r)" % (mn, mx), groups, n, lambda i, j: v[i] == v[j], min_len=mn, max_len=mx)


def u_group_rows(ctx):
    from trimesh import grouping as G

    n, m = ctx.params["n"], ctx.params["cols"]
    rc = ctx.params.get("require_count")
    D = ctx.bvs("d", (n, m))
    g = G.group_rows(D, require_count=rc)
    if rc is None:
        groups = g
    elif rc == 1:
        groups = [[i] for i in np.asarray(g).reshape(-1)]
    else:
        groups = [list(r) for r in np.asarray(g).reshape(-1, rc)]
    _partition_ok(ctx, "group_rows(require_count=%r)" % (rc,), groups, n, lambda i, j: _row_eq(D[i], D[j]), require=rc)


def u_unique_rows(ctx):
    from trimesh import grouping as G

    n, m = ctx.params["n"], ctx.params["cols"]
    ko = ctx.params["keep_order"]
    D = ctx.bvs("d", (n, m))
    unique, inverse = G.unique_rows(D, keep_order=ko)
    unique = [int(i) for i in unique]
    inverse = [int(i) for i in inverse]
    ctx.concrete_equal("shapes", (len(inverse), all(0 <= u < n for u in unique), all(0 <= i < len(unique) for i in inverse)), (n, True, True))
    cs = []
    for i in range(n):
        cs.append(_row_eq(D[unique[inverse[i]]], D[i]))  # data[unique][inverse] == data
    for a in range(len(unique)):
        for b in range(a + 1, len(unique)):
            cs.append(l_not(_row_eq(D[unique[a]], D[unique[b]])))  # representatives pairwise different
    for a, u in enumerate(unique):
        for j in range(u):
            cs.append(l_not(_row_eq(D[j], D[u])))  # first occurrence is returned
    ctx.true("unique_rows: inverse reconstructs, representatives distinct, first occurrences", l_and(*cs))
    if ko:
        ctx.concrete_equal("keep_order: unique indices ascending", unique, sorted(unique))


def u_unique_ordered(ctx):
    from trimesh import grouping as G

    n = ctx.params["n"]
    v = ctx.bvs("v", n)
    u, idx, inv = G.unique_ordered(v, return_index=True, return_inverse=True)
    idx = [int(i) for i in idx]
    inv = [int(i) for i in inv]
    ctx.concrete_equal("first-occurrence order", idx, sorted(idx))
    cs = []
    for i in range(n):
        cs.append(u[inv[i]] == v[i])
    for k, i in enumerate(idx):
        cs.append(u[k] == v[i])
        for j in range(i):
            cs.append(v[j] != v[i])
    ctx.true("unique_ordered: values, index and inverse consistent", l_and(*cs))


def u_unique_bincount(ctx):
    from trimesh import grouping as G

    n = ctx.params["n"]
    v = ctx.ints("v", n, 0, 4)
    u, inv, cnt = G.unique_bincount(v, return_inverse=True, return_counts=True)
    vals = [int(x) for x in (v if not ctx.sym else [int(x) for x in v])]
    exp_u = sorted(set(vals))
    ctx.concrete_equal("unique values", [int(x) for x in u], exp_u)
    ctx.concrete_equal("inverse", [exp_u[int(i)] for i in inv], vals)
    ctx.concrete_equal("counts", [int(c) for c in cnt], [vals.count(x) for x in exp_u])


def u_unique_value_in_row(ctx):
    from trimesh import grouping as G

    n, m = ctx.params["n"], 3
    D = ctx.bvs("d", (n, m))
    res = np.asarray(G.unique_value_in_row(D))
    cs = []
    for i in range(n):
        once = [l_count([D[i, l] == D[i, k] for l in range(m)]) == 1 for k in range(m)]
        trues = [k for k in range(m) if bool(res[i, k])]
        ctx.concrete_equal("row %d: at most one flag" % i, len(trues) <= 1, True)
        for k in trues:
            cs.append(once[k])
        if not trues:
            for k in range(m):
                cs.append(l_not(once[k]))
    ctx.true("unique_value_in_row flags a value that occurs exactly once in its row (none iff none exists)", l_and(*cs))


def u_blocks(ctx):
    from trimesh import grouping as G

    n = ctx.params["n"]
    v = ctx.bvs("v", n)
    mn = ctx.params["min_len"]
    mx = ctx.params["max_len"]
    wrap = ctx.params["wrap"]
    onz = ctx.params["only_nonzero"]
    got = G.blocks(v, min_len=mn, max_len=mx, wrap=wrap, only_nonzero=onz)
    got = [[int(i) for i in b] for b in got]
    # oracle: maximal runs on the line / circle by definition, decided per path because equalities are concrete per path
    eq = [[bool(v[i] == v[j]) for j in range(n)] for i in range(n)]
    nz = [bool(v[i] != 0) for i in range(n)]
    runs = []
    i = 0
    while i < n:
        j = i
        while j + 1 < n and eq[j][j + 1]:
            j += 1
        runs.append(list(range(i, j + 1)))
        i = j + 1
    if wrap and len(runs) > 1 and eq[0][n - 1]:
        runs[0] = runs[-1] + runs[0]
        runs.pop()
    exp = [r for r in runs if mn <= len(r) <= mx and (not onz or nz[r[0]])]
    ctx.concrete_equal("blocks(min_len=%r,max_len=%r,wrap=%r,only_nonzero=%r) as a set of index sequences" % (mn, mx, wrap, onz), sorted(got), sorted(exp))


def u_merge_runs(ctx):
    from trimesh import grouping as G

    n = ctx.params["n"]
    v = ctx.bvs("v", n)
    # values small enough that differences do not wrap (merge_runs subtracts)
    for x in v:
        ctx.assume((x <= (1 << 61)) & (x >= -(1 << 61)))
    got = G.merge_runs(v)
    keep = [0] + [i for i in range(1, n) if bool(v[i] != v[i - 1])]
    ctx.eq("merge_runs keeps the first element of every run", got, v[keep])


def u_group_min(ctx):
    from trimesh import grouping as G

    n = ctx.params["n"]
    g = ctx.ints("g", n, 0, 2)
    d = ctx.bvs("d", n)
    gc = np.array([int(x) for x in g])
    got = G.group_min(gc, d)
    labels = sorted(set(gc.tolist()))
    ctx.concrete_equal("one value per group", len(got), len(labels))
    cs = []
    for k, lab in enumerate(labels):
        members = [i for i in range(n) if gc[i] == lab]
        for i in members:
            cs.append(got[k] <= d[i])
        cs.append(l_or(*[got[k] == d[i] for i in members]))
    ctx.true("group_min returns the minimum of each group", l_and(*cs))


def u_float_rows(ctx):
    """floating rows: equality means equality after rounding to `digits` as float_to_int rounds them"""
    from trimesh import grouping as G

    n, m, digits = ctx.params["n"], 2, ctx.params["digits"]
    D = ctx.reals("x", (n, m), -100, 100)
    g = G.group_rows(D, digits=digits)
    k = 10 ** digits

    def q(x):
        from symx.core import sym_round

        return sym_round(x * k - 1e-6) if ctx.sym else int(np.round(x * k - 1e-6))

    Q = [[q(D[i, j]) for j in range(m)] for i in range(n)]
    _partition_ok(ctx, "group_rows(float, digits=%d)" % digits, g, n, lambda i, j: _row_eq(Q[i], Q[j]))
    ints = G.float_to_int(D, digits=digits)
    ctx.eq("float_to_int = round(x*10^digits - 1e-6)", ints, np.array(Q, dtype=object) if ctx.sym else np.array(Q))


def u_boolean_rows(ctx):
    from trimesh import grouping as G

    a = ctx.bvs("a", (2, 2))
    b = ctx.bvs("b", (2, 2))
    op = {"intersect": np.intersect1d, "setdiff": np.setdiff1d}[ctx.params["op"]]
    got = G.boolean_rows(a, b, operation=op)
    got = np.asarray(got).reshape(-1, 2)
    cs = []
    for i in range(2):
        inb = l_or(*[_row_eq(a[i], b[j]) for j in range(2)])
        want = inb if ctx.params["op"] == "intersect" else l_not(inb)
        present = l_or(*[_row_eq(g, a[i]) for g in got])
        cs.append(l_iff(present, want))
    for g in got:
        cs.append(l_or(*[_row_eq(g, a[i]) for i in range(2)]))
    for x in range(len(got)):
        for y in range(x + 1, len(got)):
            cs.append(l_not(_row_eq(got[x], got[y])))
    ctx.true("boolean_rows(%s) = the distinct rows of a that are (not) rows of b" % ctx.params["op"], l_and(*cs))


F = "trimesh.grouping."


def units(tier):
    T = tier == "thorough"
    us = []
    for m in (1, 2, 3, 4):
        us.append(Unit("hashable_rows-%dcol" % m, u_hashable_rows, params={"cols": m}, key="hashable_rows", functions=[F + "hashable_rows", F + "float_to_int"],
                       bounds="two rows, %d columns, EVERY int64 value (64-bit bit-vectors); both the packed and the np.void fallback path" % m))
        us.append(Unit("hashable_rows-packed-%dcol" % m, u_hashable_rows_packed, params={"cols": m}, key="hashable_rows", functions=[F + "hashable_rows"],
                       bounds="two rows, %d columns, every value strictly inside the packing range" % m))
    us.append(Unit("hashable_rows-5col", u_hashable_rows, params={"cols": 5}, key="hashable_rows", functions=[F + "hashable_rows"], bounds="5 columns: always the np.void path"))
    for n in ((3, 4) if not T else (3, 4, 5)):
        us.append(Unit("group-n%d" % n, u_group, params={"n": n}, key="group", functions=[F + "group"], bounds="%d arbitrary int64 values" % n, max_paths=3000))
    for mn, mx in ((2, None), (None, 2), (2, 3), (1, 1)):
        us.append(Unit("group-n4-min%s-max%s" % (mn, mx), u_group, params={"n": 4, "min_len": mn, "max_len": mx}, key="group", functions=[F + "group"], bounds="4 arbitrary int64 values", max_paths=3000))
    for rc in (None, 1, 2, 3):
        for m in ((2,) if not T else (1, 2, 3)):
            n = 3 if not T else 4
            us.append(Unit("group_rows-n%d-m%d-rc%s" % (n, m, rc), u_group_rows, params={"n": n, "cols": m, "require_count": rc}, key="group_rows", functions=[F + "group_rows", F + "hashable_rows", F + "group"],
                           bounds="%d rows x %d columns of arbitrary int64" % (n, m), max_paths=6000, wall_s=500))
    for ko in (False, True):
        us.append(Unit("unique_rows-keep_order=%s" % ko, u_unique_rows, params={"n": 3 if not T else 4, "cols": 2, "keep_order": ko}, key="unique_rows", functions=[F + "unique_rows", F + "unique_ordered", F + "hashable_rows"],
                       bounds="3 (quick) / 4 (thorough) rows x 2 columns of arbitrary int64", max_paths=6000, wall_s=500))
    us.append(Unit("unique_ordered", u_unique_ordered, params={"n": 4 if not T else 5}, functions=[F + "unique_ordered"], bounds="arbitrary int64 values", max_paths=6000, wall_s=500))
    us.append(Unit("unique_bincount", u_unique_bincount, params={"n": 4}, functions=[F + "unique_bincount"], bounds="4 values in 0..4 (bincount indexes by value: concretising forks)", max_paths=2000))
    us.append(Unit("unique_value_in_row", u_unique_value_in_row, params={"n": 1 if not T else 2}, functions=[F + "unique_value_in_row"], bounds="1 (quick) / 2 (thorough) rows x 3 columns arbitrary int64", max_paths=3000, wall_s=500))
    for wrap in (False, True):
        for onz in (False, True):
            for mn, mx in (((2, np.inf), (1, 2), (3, 3), (6, np.inf)) if not T else ((2, np.inf), (1, 2), (1, np.inf), (2, 3), (3, 3), (7, np.inf), (4, 6))):
                n = 5 if not T else 6
                us.append(Unit("blocks-n%d-wrap%d-nz%d-min%s-max%s" % (n, wrap, onz, mn, mx), u_blocks, params={"n": n, "wrap": wrap, "only_nonzero": onz, "min_len": mn, "max_len": mx}, key="blocks",
                               functions=[F + "blocks"], bounds="%d arbitrary int64 values; all equality patterns incl. the four wrap cases" % n, max_paths=3000))
    us.append(Unit("merge_runs", u_merge_runs, params={"n": 5}, functions=[F + "merge_runs"], bounds="5 int64 values of magnitude <= 2^61", max_paths=2000))
    us.append(Unit("group_min", u_group_min, params={"n": 4}, functions=[F + "group_min"], bounds="4 elements, group labels 0..2 (forked), arbitrary int64 data", max_paths=4000, wall_s=400))
    for dg in ((3,) if not T else (0, 3, 8)):
        us.append(Unit("float_rows-digits%d" % dg, u_float_rows, params={"n": 3, "digits": dg}, key="float_rows", functions=[F + "float_to_int", F + "group_rows", F + "hashable_rows"], bounds="3 rows x 2 real columns in [-100,100]", max_paths=3000, wall_s=400))
    for op in ("intersect", "setdiff"):
        us.append(Unit("boolean_rows-" + op, u_boolean_rows, params={"op": op}, key="boolean_rows", functions=[F + "boolean_rows"], bounds="2x2 against 2x2 arbitrary int64", max_paths=6000, wall_s=500))
    return us
