"""C07 -- re-indexing operations never move triangles or misalign attached data."""
import numpy as np

from symx import nparr
from symx.lib import l_and, l_not, l_or
from symx.harness import Unit as _Unit


def Unit(*a, **k):
    k.setdefault("opts", {"int_zeros_object": False})
    k.setdefault("group", False)
    return _Unit(*a, **k)


META = {
    "level": "other",
    "explanation": "The real Trimesh re-indexing operations run on a small mesh whose masks, index lists (with repetition), duplicate pattern and near-duplicate offsets are solver variables: "
    "boolean masks are symbolic Bools, integer masks symbolic Ints (resolved by forking), duplicated vertices are placed at a symbolic offset from their twin so that the code's own quantisation "
    "(round(v*1e8)) decides whether they merge. Attached data are distinct TAGS per face / vertex (colours, attributes), so alignment is an exact check on every path.",
    "assumptions": [
        "meshes of <= 4 faces / 7 vertices with exact rational base coordinates; offsets of twin vertices |d| <= 3e-8 per coordinate (either side of the 1e-8 merge grid)",
        "NaN / inf removal and texture images are not encodable (no NaN in the Real sort; PIL) and not claimed",
    ],
}

BASE_V = [(0, 0, 0), (2, 0, 0), (0, 2, 0), (2, 2, 1), (0, 0, 3), (5, 5, 5), (7, 1, 2)]
BASE_F = [[0, 1, 2], [2, 1, 3], [0, 2, 4], [1, 0, 4]]


def _mesh(ctx, V, F, colors="vertex"):
    import trimesh

    Vr = nparr.set_sd(nparr.wrap(np.array(V, dtype=object)), np.float64) if ctx.sym else np.array([[float(x) for x in r] for r in V])
    m = trimesh.Trimesh(vertices=Vr, faces=np.array(F), process=False)
    nv, nf = len(V), len(F)
    m.vertex_attributes["tag"] = np.arange(nv) + 100
    m.face_attributes["tag"] = np.arange(nf) + 200
    if colors == "vertex":
        m.visual.vertex_colors = np.column_stack([np.arange(nv) * 10 + 5, np.arange(nv) + 1, np.full(nv, 7), np.full(nv, 255)]).astype(np.uint8)
    else:
        m.visual.face_colors = np.column_stack([np.arange(nf) * 10 + 5, np.arange(nf) + 1, np.full(nf, 9), np.full(nf, 255)]).astype(np.uint8)
    return m


def _val(x):
    from symx import core

    v = core._const_value(x)
    return float(v) if v is not None else str(x)


def _tris(m, sym):
    t = m.vertices[m.faces] if not sym else nparr.base(m.vertices)[np.asarray(m.faces)]
    return np.asarray(t, dtype=object if sym else float)


def u_update_faces(ctx):
    """boolean / integer face masks: surviving faces keep corners, order and tags"""
    m = _mesh(ctx, BASE_V, BASE_F, colors="face")
    before = _tris(m, ctx.sym)
    ftag = np.asarray(m.face_attributes["tag"]).copy()
    fcol = np.asarray(m.visual.face_colors).copy()
    if ctx.params["mask"] == "bool":
        mask = np.array([ctx.choose_bool("k%d" % i) for i in range(4)])
        keep = np.flatnonzero(mask)
    else:
        n = ctx.params["n"]
        mask = np.array([ctx.choice("i%d" % i, 4) for i in range(n)], dtype=np.int64)
        keep = mask
    m.update_faces(mask)
    after = _tris(m, ctx.sym)
    ctx.concrete_equal("face count", len(m.faces), len(keep))
    ctx.eq("surviving triangles have the same corners in the same order", after.reshape(-1), before[keep].reshape(-1))
    ctx.concrete_equal("face attribute follows its face", np.asarray(m.face_attributes["tag"]).tolist(), ftag[keep].tolist())
    ctx.concrete_equal("face colour follows its face", np.asarray(m.visual.face_colors).tolist(), fcol[keep].tolist())
    ctx.concrete_equal("faces index existing vertices", (int(np.asarray(m.faces).max()) < len(m.vertices)) if len(m.faces) else True, True)


def u_remove_unreferenced(ctx):
    """faces drawn symbolically from 7 vertices: unreferenced vertices go, triangles and vertex tags stay"""
    nfree = ctx.params.get("free", 1)
    F = [list(f) for f in ctx.params.get("fixed", [])] + [[ctx.choice("f%d_%d" % (i, j), 7) for j in range(3)] for i in range(nfree)]
    m = _mesh(ctx, BASE_V, F, colors="vertex")
    before = _tris(m, ctx.sym)
    vtag = np.asarray(m.vertex_attributes["tag"]).copy()
    vcol = np.asarray(m.visual.vertex_colors).copy()
    m.remove_unreferenced_vertices()
    after = _tris(m, ctx.sym)
    ref = sorted(set(x for f in F for x in f))
    ctx.concrete_equal("vertex count = referenced vertices", len(m.vertices), len(ref))
    ctx.eq("triangles unchanged", after.reshape(-1), before.reshape(-1))
    ctx.concrete_equal("vertex attribute follows its vertex", np.asarray(m.vertex_attributes["tag"]).tolist(), vtag[ref].tolist())
    ctx.concrete_equal("vertex colour follows its vertex", np.asarray(m.visual.vertex_colors).tolist(), vcol[ref].tolist())
    ctx.concrete_equal("faces index existing vertices", int(np.asarray(m.faces).max()) < len(m.vertices), True)


def u_merge(ctx):
    """twin vertices at a symbolic offset: merged iff the code's quantisation says so; corners move by at most the merge tolerance"""
    # faces 0 and 1 share the edge (1,2) through twins 5 ~ 1 and 6 ~ 2
    grid = 10.0 ** -ctx.params.get("kw", {}).get("digits_vertex", 8)
    d = ctx.reals("d", (2, 3), -3 * grid, 3 * grid)
    V = [list(v) for v in BASE_V[:5]] + [[BASE_V[1][c] + d[0][c] for c in range(3)], [BASE_V[2][c] + d[1][c] for c in range(3)]]
    F = [[0, 1, 2], [6, 5, 3], [0, 2, 4], [1, 0, 4]]
    m = _mesh(ctx, V, F, colors="vertex")
    before = _tris(m, ctx.sym)
    ftag = np.asarray(m.face_attributes["tag"]).copy()
    vcol = np.asarray(m.visual.vertex_colors).copy()
    m.merge_vertices(**ctx.params.get("kw", {}))
    after = _tris(m, ctx.sym)
    ctx.concrete_equal("face count and order unchanged", (len(m.faces), np.asarray(m.face_attributes["tag"]).tolist()), (4, ftag.tolist()))
    tol = grid
    ctx.close("every corner stays within the merge tolerance of where it was", after.reshape(-1), before.reshape(-1), tol * 1.0000001)
    ctx.concrete_equal("faces index existing vertices", int(np.asarray(m.faces).max()) < len(m.vertices), True)
    # a vertex keeps a colour of one of the vertices merged into it: corner colour = colour of the original corner or of its twin
    twins = {1: (1, 5), 5: (1, 5), 2: (2, 6), 6: (2, 6)}
    cols = np.asarray(m.visual.vertex_colors)
    ok = True
    for fi, f in enumerate(F):
        for ci, v in enumerate(f):
            got = cols[int(np.asarray(m.faces)[fi][ci])].tolist()
            ok = ok and any(got == vcol[t].tolist() for t in twins.get(v, (v,)))
    ctx.concrete_equal("corner colours come from the vertex or its merged twin", ok, True)
    # merged exactly when all three quantised coordinates agree (the documented notion of float equality, cf. C06)
    nv = len(m.vertices)
    ctx.concrete_equal("vertex count between 5 and 7", 5 <= nv <= 7, True)


def u_merge_uv_normals(ctx):
    """twins at the SAME position whose uv / vertex normal differ by a symbolic offset: merged only if uv and normal agree on their grids
    (unless merge_tex / merge_norm); uv and normals stay attached to their corners"""
    import trimesh

    kw = ctx.params.get("kw", {})
    V = [list(v) for v in BASE_V[:5]] + [list(BASE_V[1]), list(BASE_V[2])]
    F = [[0, 1, 2], [6, 5, 3], [0, 2, 4], [1, 0, 4]]
    uv0 = [[0, 0], [1, 0], [0, 1], [1, 1], [0.5, 0.5]]
    du = ctx.reals("du", (2, 2), -3e-4, 3e-4)
    dn = ctx.reals("dn", (2, 3), -3e-2, 3e-2)
    UV = [list(r) for r in uv0] + [[uv0[1][c] + du[0][c] for c in range(2)], [uv0[2][c] + du[1][c] for c in range(2)]]
    n0 = [[0, 0, 1], [0, 1, 0], [1, 0, 0], [0, 0, 1], [0, 1, 0]]
    N = [list(r) for r in n0] + [[n0[1][c] + dn[0][c] for c in range(3)], [n0[2][c] + dn[1][c] for c in range(3)]]
    if ctx.sym:
        Vr = nparr.set_sd(nparr.wrap(np.array(V, dtype=object)), np.float64)
        UVr = nparr.set_sd(nparr.wrap(np.array(UV, dtype=object)), np.float64)
        Nr = nparr.set_sd(nparr.wrap(np.array(N, dtype=object)), np.float64)
    else:
        Vr, UVr, Nr = np.array(V, dtype=float), np.array(UV, dtype=float), np.array(N, dtype=float)
    m = trimesh.Trimesh(vertices=Vr, faces=np.array(F), vertex_normals=Nr if ctx.params["normals"] else None, process=False)
    if ctx.params["uv"]:
        m.visual = trimesh.visual.TextureVisuals(uv=UVr)
    before = _tris(m, ctx.sym)
    Fa = np.array(F)
    uvb = np.asarray(nparr.base(UVr) if ctx.sym else UVr)[Fa]
    nb = np.asarray(nparr.base(Nr) if ctx.sym else Nr)[Fa]
    m.merge_vertices(**kw)
    fa = np.asarray(m.faces)
    ctx.concrete_equal("face count; faces index existing vertices", (len(fa), int(fa.max()) < len(m.vertices)), (4, True))
    ctx.eq("corner positions unchanged", _tris(m, ctx.sym).reshape(-1), before.reshape(-1))
    if ctx.params["uv"]:
        uva = np.asarray(nparr.base(m.visual.uv) if ctx.sym else m.visual.uv)
        ctx.concrete_equal("one uv row per vertex", len(uva), len(m.vertices))
        if not kw.get("merge_tex"):
            ctx.close("corner uv within the uv grid of where it was", uva[fa].reshape(-1), uvb.reshape(-1), 1.0000001e-4)
    if ctx.params["normals"]:
        na = m._cache["vertex_normals"] if "vertex_normals" in m._cache else None
        ctx.concrete_equal("stored vertex normals survive with one row per vertex", np.shape(na), (len(m.vertices), 3))
        if na is not None and np.shape(na) == (len(m.vertices), 3) and not kw.get("merge_norm"):
            na = np.asarray(nparr.base(na) if ctx.sym else na)
            ctx.close("corner normal within the normal grid of where it was", na[fa].reshape(-1), nb.reshape(-1), 1.0000001e-2)


def u_unmerge(ctx):
    """unmerge_vertices: every face gets its own three vertices, triangles and colours stay"""
    F = [list(f) for f in BASE_F[:2]] + [[ctx.choice("f_%d" % j, 5) for j in range(3)]]
    m = _mesh(ctx, BASE_V, F, colors=ctx.params["colors"])
    before = _tris(m, ctx.sym)
    vcol = np.asarray(m.visual.vertex_colors).copy()
    fcol = np.asarray(m.visual.face_colors).copy()
    m.unmerge_vertices()
    ctx.concrete_equal("faces are 0..3n-1", np.asarray(m.faces).tolist(), np.arange(9).reshape(3, 3).tolist())
    ctx.eq("triangles unchanged", _tris(m, ctx.sym).reshape(-1), before.reshape(-1))
    if ctx.params["colors"] == "vertex":
        ctx.concrete_equal("corner colours follow", np.asarray(m.visual.vertex_colors)[np.asarray(m.faces)].tolist(), vcol[np.array(F)].tolist())
    else:
        ctx.concrete_equal("face colours follow", np.asarray(m.visual.face_colors).tolist(), fcol.tolist())


def u_update_vertices(ctx):
    """update_vertices with an integer mask drawn symbolically (permutations and repeats) or a boolean mask over the unreferenced vertices"""
    F = [[0, 1, 2], [2, 1, 3]]
    m = _mesh(ctx, BASE_V[:6], F, colors="vertex")
    before = _tris(m, ctx.sym)
    vtag = np.asarray(m.vertex_attributes["tag"]).copy()
    vcol = np.asarray(m.visual.vertex_colors).copy()
    if ctx.params["mask"] == "int":
        mask = [ctx.choice("m%d" % i, 6) for i in range(ctx.params["n"])]
        if not set([0, 1, 2, 3]) <= set(mask):
            ctx.assume(False)  # a referenced vertex would be dropped: outside the operation's contract
        mask = np.array(mask, dtype=np.int64)
        keep = mask
    else:
        mask = np.array([True, True, True, True, ctx.choose_bool("k4"), ctx.choose_bool("k5")])
        keep = np.flatnonzero(mask)
    m.update_vertices(mask)
    ctx.concrete_equal("vertex count", len(m.vertices), len(keep))
    ctx.eq("triangles unchanged", _tris(m, ctx.sym).reshape(-1), before.reshape(-1))
    ctx.concrete_equal("vertex attribute follows its vertex", np.asarray(m.vertex_attributes["tag"]).tolist(), vtag[keep].tolist())
    ctx.concrete_equal("vertex colour follows its vertex", np.asarray(m.visual.vertex_colors).tolist(), vcol[keep].tolist())
    ctx.concrete_equal("faces index existing vertices", int(np.asarray(m.faces).max()) < len(m.vertices), True)


def u_concat_texture(ctx):
    """concatenating textured meshes: which material each mesh carries and each mesh's size are drawn symbolically; the colour every vertex samples through its uv must not change"""
    import trimesh
    from PIL import Image
    from trimesh.visual.material import SimpleMaterial
    from trimesh.visual.texture import TextureVisuals

    tri = ([[0, 0, 0], [1, 0, 0], [0, 1, 0]], [[0, 1, 2]])
    quad = ([[0, 0, 0], [1, 0, 0], [1, 1, 0], [0, 1, 0]], [[0, 1, 2], [0, 2, 3]])
    cols = [(255, 0, 0), (0, 255, 0), (0, 0, 255)]
    meshes = []
    for i in range(ctx.params["n"]):
        c = ctx.choice("mat%d" % i, len(cols))
        V, F = quad if ctx.choice("shape%d" % i, 2) else tri
        V = np.asarray(V, dtype=np.float64) + [2.0 * i, 0, 0]
        uv = np.linspace(0.2, 0.8, len(V) * 2).reshape((-1, 2))
        vis = TextureVisuals(uv=uv, material=SimpleMaterial(image=Image.new("RGB", (2, 2), cols[c])))
        meshes.append(trimesh.Trimesh(vertices=V, faces=np.asarray(F), visual=vis, process=False))
    exp = np.vstack([mm.visual.to_color().vertex_colors for mm in meshes])[:, :3].astype(int)
    tris = np.concatenate([np.asarray(mm.vertices)[np.asarray(mm.faces)] for mm in meshes])
    meshes[0].visual.concatenate([mm.visual for mm in meshes[1:]])  # raises here rather than being swallowed by util.concatenate's fallback
    res = trimesh.util.concatenate(meshes)
    ctx.concrete_equal("triangles stacked in order", np.asarray(res.vertices)[np.asarray(res.faces)].tolist(), tris.tolist())
    ctx.concrete_equal("one uv row per vertex", len(res.visual.uv), len(res.vertices))
    got = res.visual.to_color().vertex_colors[:, :3].astype(int)
    ctx.concrete_equal("every vertex samples the same texture colour as before (within 6/255)", bool((np.abs(exp - got).max(axis=1) <= 6).all()), True)


def u_duplicate_degenerate(ctx):
    """unique_faces / nondegenerate_faces masks on a face array drawn symbolically (ids < 4, repetition allowed)"""
    F = [list(ctx.params["f0"])] + [[ctx.choice("f%d_%d" % (i, j), 4) for j in range(3)] for i in (1,)] + [[ctx.choice("f2_%d" % j, ctx.params.get("n2", 3)) for j in range(3)]]
    m = _mesh(ctx, BASE_V[:4], F, colors="face")
    before = _tris(m, ctx.sym)
    ftag = np.asarray(m.face_attributes["tag"]).copy()
    uq = np.array([bool(x) for x in np.asarray(m.unique_faces())])
    exp_u = [i for i in range(3) if not any(sorted(F[j]) == sorted(F[i]) for j in range(i))]
    ctx.concrete_equal("unique_faces keeps the first of each set of faces with the same vertex set", np.flatnonzero(uq).tolist(), exp_u)
    nd = np.array([bool(x) for x in np.asarray(m.nondegenerate_faces())])
    # degenerate: zero area; with these coordinates (no three collinear) that is exactly a repeated index
    exp_nd = [len(set(f)) == 3 for f in F]
    ctx.concrete_equal("nondegenerate_faces = faces with three different corners", nd.tolist(), exp_nd)
    m.update_faces(nd)
    ctx.eq("surviving triangles", _tris(m, ctx.sym).reshape(-1), before[[i for i in range(3) if exp_nd[i]]].reshape(-1))
    ctx.concrete_equal("tags follow", np.asarray(m.face_attributes["tag"]).tolist(), ftag[[i for i in range(3) if exp_nd[i]]].tolist())


def u_submesh_split(ctx):
    import trimesh

    # two bodies: faces 0,1 (strip) and a separate triangle
    V = BASE_V
    F = [[0, 1, 2], [2, 1, 3], [4, 5, 6]]
    m = _mesh(ctx, V, F, colors="face")
    before = _tris(m, ctx.sym)
    idx = [ctx.choice("s%d" % i, 3) for i in range(2)]
    sub = m.submesh([idx], append=True, repair=False)
    ctx.eq("submesh triangles = the selected triangles in order", _tris(sub, ctx.sym).reshape(-1), before[idx].reshape(-1))
    ctx.concrete_equal("submesh faces index existing vertices", int(np.asarray(sub.faces).max()) < len(sub.vertices), True)
    ctx.concrete_equal("submesh face colours follow", np.asarray(sub.visual.face_colors).tolist(), np.asarray(m.visual.face_colors)[idx].tolist())
    parts = m.split(only_watertight=False, repair=False)
    ctx.concrete_equal("split finds the two bodies", sorted(len(p.faces) for p in parts), [1, 2])
    joined = trimesh.util.concatenate(list(parts))
    jt = _tris(joined, ctx.sym).reshape(-1, 9)
    bt = before.reshape(-1, 9)
    got = sorted(tuple(_val(x) for x in r) for r in jt)
    exp = sorted(tuple(_val(x) for x in r) for r in bt)
    ctx.concrete_equal("concatenate(split(mesh)) has the same triangle multiset", got, exp)
    both = m + m
    ctx.concrete_equal("mesh + mesh: counts add, faces of the second copy are offset", (len(both.faces), int(np.asarray(both.faces)[3:].min())), (6, 7))
    ctx.eq("mesh + mesh: triangles repeated", _tris(both, ctx.sym).reshape(-1), np.concatenate([before.reshape(-1), before.reshape(-1)]))


F_ = "trimesh."
FUN = [F_ + "base.Trimesh.update_faces", F_ + "base.Trimesh.update_vertices", F_ + "base.Trimesh.remove_unreferenced_vertices", F_ + "base.Trimesh.merge_vertices", F_ + "grouping.merge_vertices", F_ + "base.Trimesh.unique_faces",
       F_ + "base.Trimesh.nondegenerate_faces", F_ + "base.Trimesh.submesh", F_ + "util.submesh", F_ + "graph.split", F_ + "util.concatenate", F_ + "visual.color.ColorVisuals"]


def units(tier):
    T = tier == "thorough"
    us = [
        Unit("update_faces-bool-mask", u_update_faces, params={"mask": "bool"}, key="update_faces", functions=FUN, bounds="4 faces, every boolean mask (16)", max_paths=100),
        Unit("update_faces-int-mask", u_update_faces, params={"mask": "int", "n": 2 if not T else 3}, key="update_faces", functions=FUN, bounds="4 faces, every integer mask of length 2 (quick) / 3 with repetition", max_paths=300),
        Unit("remove_unreferenced-1+1", u_remove_unreferenced, params={"fixed": [[0, 1, 2]], "free": 1}, key="remove_unreferenced", functions=FUN, bounds="face [0,1,2] + one face with ANY three ids < 7 (343 arrays, complete)", max_paths=400, expect_paths=343),
        Unit("remove_unreferenced-dup+1", u_remove_unreferenced, params={"fixed": [[5, 5, 3]], "free": 1}, key="remove_unreferenced", functions=FUN, bounds="degenerate face [5,5,3] + one face with ANY three ids < 7 (343 arrays, complete)", max_paths=400, expect_paths=343),
        Unit("merge_vertices", u_merge, key="merge_vertices", functions=FUN, bounds="two twin vertices at EVERY offset |d|<=3e-8 per coordinate from their originals", max_paths=400, wall_s=300, ob_ms=20000),
        Unit("merge_vertices-digits", u_merge, params={"kw": {"digits_vertex": 7}}, key="merge_vertices", functions=FUN, bounds="as above with digits_vertex=7", max_paths=400, wall_s=300, ob_ms=20000),
    ] + [
        Unit("unique+nondegenerate-%s" % "".join(map(str, f0)), u_duplicate_degenerate, params={"f0": f0, "n2": 4 if T else 3}, key="unique_nondegenerate", functions=FUN,
             bounds="face 0 = %s, face 1 = ANY three ids < 4, face 2 = ANY three ids < %d (complete)" % (f0, 4 if T else 3), max_paths=5000, expect_paths=64 * (64 if T else 27), wall_s=200 if not T else 900)
        for f0 in ([0, 1, 2], [0, 0, 1], [3, 3, 3])
    ] + [
        Unit("merge-uv", u_merge_uv_normals, params={"uv": True, "normals": False}, key="merge_uv", functions=FUN, bounds="twins at equal position, uv offset symbolic |d|<=3e-4", max_paths=400, wall_s=300),
        Unit("merge-uv-merge_tex", u_merge_uv_normals, params={"uv": True, "normals": False, "kw": {"merge_tex": True}}, key="merge_uv", functions=FUN, bounds="as merge-uv with merge_tex=True", max_paths=400, wall_s=300),
        Unit("merge-normals", u_merge_uv_normals, params={"uv": False, "normals": True}, key="merge_norm", functions=FUN, bounds="twins at equal position, stored vertex normal offset symbolic |d|<=3e-2", max_paths=400, wall_s=300),
        Unit("merge-normals-merge_norm", u_merge_uv_normals, params={"uv": False, "normals": True, "kw": {"merge_norm": True}}, key="merge_norm", functions=FUN, bounds="as merge-normals with merge_norm=True", max_paths=400, wall_s=300),
        Unit("merge-uv+normals", u_merge_uv_normals, params={"uv": True, "normals": True}, key="merge_uvnorm", functions=FUN, bounds="both uv and normal offsets symbolic", max_paths=600, wall_s=300),
        Unit("update_vertices-int-mask", u_update_vertices, params={"mask": "int", "n": 5}, key="update_vertices", functions=FUN, bounds="6 vertices, 2 faces; EVERY integer mask of length 5 (permutations, repeats) that keeps the referenced vertices", max_paths=9000, wall_s=300),
        Unit("update_vertices-bool-mask", u_update_vertices, params={"mask": "bool"}, key="update_vertices", functions=FUN, bounds="every boolean mask over the unreferenced vertices", max_paths=20),
        Unit("concatenate-textured", u_concat_texture, params={"n": 3}, key="concat_texture", functions=FUN + ["trimesh.visual.material.pack", "trimesh.visual.texture.TextureVisuals.concatenate"],
             bounds="3 textured meshes, EVERY assignment of 3 materials and 2 shapes (216 combinations); pixel values concrete (PIL): only the assignment is symbolic, the body runs on plain numpy", max_paths=300, wall_s=300, opts={"no_proxy": True}),
        Unit("unmerge-vertexcolors", u_unmerge, params={"colors": "vertex"}, key="unmerge", functions=FUN, bounds="2 fixed faces + one face with ANY ids < 5", max_paths=200, expect_paths=125),
        Unit("unmerge-facecolors", u_unmerge, params={"colors": "face"}, key="unmerge", functions=FUN, bounds="2 fixed faces + one face with ANY ids < 5", max_paths=200, expect_paths=125),
        Unit("submesh+split+concatenate", u_submesh_split, key="submesh_split", functions=FUN, bounds="two-body mesh, every index pair (with repetition) for submesh", max_paths=100),
    ]
    return us
