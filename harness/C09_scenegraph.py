"""C09 -- scene-graph transforms are the product of the current edges along the path."""
import itertools

import numpy as np

from symx import lib, nparr
from symx.harness import Unit

META = {
    "level": "model_checking",
    "explanation": "The HISTORY is symbolic: the initial forest shape, every mutation (kind, operands) and the query sweeps in between are solver variables resolved by forking, "
    "run on the real SceneGraph / EnforcedForest; edge matrices stay symbolic along each history (the non-commutative group x -> s*x + t, s and t z3 reals), and z3 decides that every "
    "answer equals the product over a dictionary reference forest for ALL s, t. States = (history prefix, cache population) pairs visited, transitions = operations executed.",
    "assumptions": [
        "edge matrices are drawn from the group {x -> s*x + t}: uniform scale s in disjoint intervals per created matrix (so that no product is within 1e-4 of rigid or of identity: "
        "the 1e-8 'unchanged'/'identity' shortcuts and fix_rigid's SVD band 1e-13 < dev < 1e-5 are excluded by construction), translation any |t| <= 10",
        "histories keep the graph a forest (operations that would create a cycle are not generated)",
        "disconnected pairs must raise ValueError",
    ],
}

W = "world"
NODES = [W, "a", "b", "c"]
_SHAPE_IDX = [[(0, 1), (1, 2), (2, 3)], [(0, 1), (0, 2), (0, 3)], [(0, 1), (1, 2), (0, 3)], [(0, 1), (1, 2), (1, 3)]]  # chain, star, mixed, fork below a
SHAPES = [[(NODES[u], NODES[v]) for u, v in sh] for sh in _SHAPE_IDX]


def _setnames(kind):
    """frame names used by the unit: the default strings, or integers with a FALSY base frame (0) - every frame name is just a
    hashable, and a base frame / parent named 0 must behave like any other"""
    global W, NODES, SHAPES
    NODES = ["world", "a", "b", "c"] if kind != "int" else [0, 1, 2, 3]
    W = NODES[0]
    SHAPES = [[(NODES[u], NODES[v]) for u, v in sh] for sh in _SHAPE_IDX]



class Ref:
    """dictionary reference forest"""

    def __init__(self):
        self.parent = {}
        self.matrix = {}
        self.nodes = set()

    def set_edge(self, u, v, M):
        self.parent[v] = u
        self.matrix[v] = M
        self.nodes.update([u, v])

    def remove(self, u):
        if u not in self.nodes:
            return
        for c in [c for c, p in self.parent.items() if p == u]:
            del self.parent[c]
            del self.matrix[c]
        self.parent.pop(u, None)
        self.matrix.pop(u, None)
        self.nodes.discard(u)

    def root_chain(self, n):
        chain = [n]
        while chain[-1] in self.parent:
            chain.append(self.parent[chain[-1]])
            if len(chain) > 10:
                raise RuntimeError("cycle in reference")
        return chain

    def would_cycle(self, u, v):
        """edge u -> v (v child) creates a cycle iff u is v or a descendant of v"""
        return v in self.root_chain(u)

    def to_root(self, n):
        M = np.eye(4, dtype=object)
        for x in self.root_chain(n)[:-1]:
            M = lib.matmul(self.matrix[x], M)
        return M

    def connected(self, a, b):
        return a in self.nodes and b in self.nodes and self.root_chain(a)[-1] == self.root_chain(b)[-1]

    def T(self, frm, to, inv):
        """matrix taking coordinates of `to` into `frm`"""
        return lib.matmul(inv(self.to_root(frm)), self.to_root(to))


def _inv_st(M):
    """exact inverse of x -> s x + t embedded in 4x4"""
    M = np.asarray(nparr.base(M) if isinstance(M, np.ndarray) else M, dtype=object)
    s = M[0, 0]
    out = np.zeros((4, 4), dtype=object)
    for i in range(3):
        out[i, i] = 1 / s
        out[i, 3] = -M[i, 3] / s
    out[3, 3] = 1
    return out


class H:
    """one history run on the real graph and on the reference"""

    def __init__(self, ctx):
        from trimesh.scene import transforms as ST

        self.ctx = ctx
        self.g = ST.SceneGraph(base_frame=W, repair_rigid=ctx.params.get("repair_rigid", 1e-5))
        self.ref = Ref()
        self.nmat = 0
        self.log = []
        self.transitions = 0

    def fresh(self):
        ctx, k = self.ctx, self.nmat
        self.nmat += 1
        # distinct primes: no product of up to four scales / inverse scales comes within 4% of 1, so fix_rigid's SVD band
        # and the 1e-8 identity / unchanged shortcuts are unreachable (stated exclusion)
        lo = [2, 3, 5, 7, 11, 13, 17, 19][k]
        s = ctx.real("s%d" % k, lo, lo * 1.004)
        t = [ctx.real("t%d_%d" % (k, i), -10, 10) for i in range(3)]
        M = np.zeros((4, 4), dtype=object)
        for i in range(3):
            M[i, i] = s
            M[i, 3] = t[i]
        M[3, 3] = 1
        Mreal = nparr.set_sd(nparr.wrap(M.copy()), np.float64) if ctx.sym else M.astype(np.float64)
        return Mreal, M

    def update(self, child, parent):
        Mreal, Mref = self.fresh()
        self.g.update(frame_to=child, frame_from=parent, matrix=Mreal)
        self.ref.set_edge(parent, child, Mref if self.ctx.sym else Mreal)
        self.log.append("update(%s<-%s)" % (child, parent))
        self.transitions += 1

    def remove(self, n):
        self.g.transforms.remove_node(n)
        self.ref.remove(n)
        self.log.append("remove_node(%s)" % n)
        self.transitions += 1

    def sweep(self, tag, order=1, pairs=None, check=True):
        ctx, g, ref = self.ctx, self.g, self.ref
        live = [n for n in NODES if n in ref.nodes]
        allpairs = list(itertools.permutations(live, 2)) + [(n, n) for n in live[:1]]
        if order < 0:
            allpairs = allpairs[::-1]
        if pairs is not None:
            allpairs = pairs
        got_all, exp_all = [], []
        for frm, to in allpairs:
            if not ref.connected(frm, to):
                try:
                    g.get(frame_to=to, frame_from=frm)
                    ctx.concrete_equal("%s: disconnected %s->%s must raise" % (tag, frm, to), "returned", "raised ValueError")
                except ValueError:
                    pass
                continue
            try:
                got = g.get(frame_to=to, frame_from=frm)[0]
            except (ValueError, KeyError, AssertionError) as e:
                ctx.concrete_equal("%s: connected %s->%s must not raise" % (tag, frm, to), "raised %s" % type(e).__name__, "returned")
                continue
            if not check:
                continue
            exp = ref.T(frm, to, _inv_st) if ctx.sym else np.linalg.inv(_f(ref.to_root(frm))).dot(_f(ref.to_root(to)))
            ctx.eq("%s: T(%s,%s) = product of current edges  [%s]" % (tag, frm, to, " ; ".join(self.log)), np.asarray(nparr.base(got) if ctx.sym else got)[:3], np.asarray(exp, dtype=object if ctx.sym else float)[:3])
            self.transitions += 1


def _f(M):
    return np.array(M, dtype=float)


def _mutation(h, ctx, name):
    """one symbolic mutation; returns False when the drawn operation is not admissible"""
    ref = h.ref
    kind = ctx.params["kinds"][int(name[1:])] if ctx.params.get("kinds") else ctx.choice(name + "_kind", 5)
    # operands are drawn only where the operation uses them (no duplicate histories)
    x = W if kind == 4 else (NODES[ctx.params["x0"]] if (name == "m0" and ctx.params.get("x0") is not None) else NODES[ctx.choice(name + "_x", 4)])
    y = NODES[ctx.choice(name + "_y", 4)] if kind == 1 else W
    if kind == 0:  # update an existing edge in place
        if x not in ref.parent:
            return False
        h.update(x, ref.parent[x])
    elif kind == 1:  # re-parent x under y (or attach a root / new node)
        if x == y or y not in ref.nodes or (x in ref.nodes and ref.would_cycle(y, x)) or x == W:
            return False
        if ref.parent.get(x) == y:
            return False
        h.update(x, y)
    elif kind == 2:  # remove a node
        if x not in ref.nodes or x == W:
            return False
        h.remove(x)
    elif kind == 3:  # change the base frame
        if x not in ref.nodes:
            return False
        h.g.base_frame = x
        h.log.append("base_frame=%s" % x)
        # default-argument queries follow the base frame
        for n in [n for n in NODES if n in ref.nodes]:
            if ref.connected(x, n):
                got = h.g.get(n)[0]
                exp = ref.T(x, n, _inv_st) if ctx.sym else np.linalg.inv(_f(ref.to_root(x))).dot(_f(ref.to_root(n)))
                ctx.eq("graph[%s] follows base_frame=%s" % (n, x), np.asarray(nparr.base(got) if ctx.sym else got)[:3], np.asarray(exp, dtype=object if ctx.sym else float)[:3])
    else:  # remove_geometries + re-query (must not disturb transforms)
        h.g.remove_geometries(["nothing"])
        h.log.append("remove_geometries")
    return True


def u_history(ctx):
    _setnames(ctx.params.get("names"))
    h = H(ctx)
    shape = SHAPES[ctx.params["shape"]]
    for u, v in shape:
        h.update(v, u)
    sweep0 = ctx.params["sweep0"]
    if sweep0:
        # the initial sweep always runs (it populates both caches); its answers are checked once per shape (in the units whose
        # first mutation kind is 0), not again on every other history
        h.sweep("initial", order=sweep0, check=not ctx.params.get("kinds") or ctx.params["kinds"][0] == 0)
    steps = ctx.params["steps"]
    for k in range(steps):
        ok = _mutation(h, ctx, "m%d" % k)
        ctx.assume(ok)
        if k + 1 < steps:
            sw = ctx.choice("sw%d" % k, 3)  # none / forward / reversed sweep between mutations
            if sw:
                h.sweep("after step %d" % k, order=1 if sw == 1 else -1)
    h.sweep("final", order=1)
    # laws
    live = [n for n in NODES if n in h.ref.nodes]
    ctx.note("states=%d transitions=%d" % (len(h.log) + 1, h.transitions))
    # edge list export rebuilds an equivalent graph
    from trimesh.scene import transforms as ST

    g2 = ST.SceneGraph(repair_rigid=ctx.params.get("repair_rigid", 1e-5))
    g2.base_frame = h.g.base_frame
    g2.from_edgelist(_edgelist(h.g, ctx))
    got2, exp2 = [], []
    for frm, to in itertools.permutations(live, 2):
        if not h.ref.connected(frm, to):
            continue
        try:
            m2 = g2.get(frame_to=to, frame_from=frm)[0]
        except (ValueError, KeyError, AssertionError) as e:
            ctx.concrete_equal("rebuilt graph answers %s->%s" % (frm, to), "raised %s" % type(e).__name__, "returned")
            continue
        m1 = h.ref.T(frm, to, _inv_st) if ctx.sym else np.linalg.inv(_f(h.ref.to_root(frm))).dot(_f(h.ref.to_root(to)))
        ctx.eq("from_edgelist(to_edgelist()) gives the same T(%s,%s) [%s]" % (frm, to, " ; ".join(h.log)), np.asarray(nparr.base(m2) if ctx.sym else m2)[:3], np.asarray(m1, dtype=object if ctx.sym else float)[:3])
    nedges = len(h.g.to_edgelist())
    ctx.concrete_equal("to_edgelist exports exactly the current edges [%s]" % " ; ".join(h.log), nedges, len(h.ref.parent))


def _edgelist(g, ctx):
    """to_edgelist() with the matrices kept as arrays (tolist() of a symbolic array is the same data)"""
    out = []
    for a, b, attr in g.to_edgelist():
        attr = dict(attr)
        if "matrix" in attr:
            m = attr["matrix"]
            attr["matrix"] = nparr.set_sd(nparr.wrap(np.array(m, dtype=object)), np.float64) if ctx.sym else np.array(m, dtype=float)
        out.append((a, b, attr))
    return out


def _runner(prop_id, unit, tier, seed):
    from symx import harness

    res = harness.run_unit(prop_id, unit, tier, seed)
    res["states"] = res.get("completed_paths", 0) * (unit.params["steps"] + 2)
    res["transitions"] = res.get("completed_paths", 0) * (len(SHAPES[unit.params["shape"]]) + unit.params["steps"] + 12 * (unit.params["steps"] + 1))
    res["traces_validated_against_impl"] = res.get("validation_points", 0) + len(res.get("violations", []))
    return res


F = "trimesh.scene.transforms."
FUNCS = [F + x for x in ("SceneGraph.update", "SceneGraph.get", "SceneGraph.__getitem__", "SceneGraph.to_edgelist", "SceneGraph.from_edgelist", "SceneGraph.remove_geometries", "EnforcedForest.add_edge",
                         "EnforcedForest.remove_node", "EnforcedForest.shortest_path", "EnforcedForest.__hash__", "kwargs_to_matrix")] + ["trimesh.transformations.fix_rigid", "trimesh.util.allclose", "trimesh.caching.Cache"]


KINDS = ["update-edge", "re-parent", "remove_node", "base_frame", "remove_geometries"]


def units(tier):
    us = []
    T = tier == "thorough"
    for shape in range(len(SHAPES)):
        for sweep0 in ((0, 1) if not T else (0, 1, -1)):
            for k1 in range(5):
                # two-step histories (thorough): on the chain (after a sweep) and the mixed forest (no sweep before); sized so that the tier ends in < 25 min (the full product ran > 30 min twice)
                two = T and (shape, sweep0) in ((0, 1), (2, 0))
                combos = [(k1,)] if not two else [(k1, k2) for k2 in range(5)]
                for kinds, x0 in [(c, x0) for c in combos for x0 in ((1, 2, 3) if k1 in (0, 1, 2) else ((0, 1, 2, 3) if k1 == 3 else (None,)))]:
                    nm = "+".join(KINDS[k] for k in kinds) + ("" if x0 is None else "-" + NODES[x0])
                    u = Unit("history-shape%d-sweep%d-%s" % (shape, sweep0, nm), u_history, params={"shape": shape, "sweep0": sweep0, "steps": len(kinds), "kinds": kinds, "x0": x0}, key="history", functions=FUNCS,
                             bounds="4 frames; initial forest shape %d; %s query sweep before; mutation(s) %s with symbolic operands, symbolic sweep choice between; full sweep, edge-list rebuild after" % (shape, {0: "no", 1: "forward", -1: "reversed"}[sweep0], nm),
                             max_paths=1500, wall_s=600 if T else 200, ob_ms=30000, feas_ms=500, samples=1)
                    u.runner = _runner
                    us.append(u)
    for shape, k1 in (((0, 1), (2, 1), (3, 1), (1, 0), (0, 2), (2, 3)) if not T else [(sh, k) for sh in range(4) for k in range(5)]):
        u = Unit("history-intnames-shape%d-%s" % (shape, KINDS[k1]), u_history, params={"shape": shape, "sweep0": 1, "steps": 1, "kinds": (k1,), "x0": None, "names": "int"}, key="history", functions=FUNCS,
                 bounds="as history-shape%d-sweep1-%s but the four frames are named 0, 1, 2, 3 (base frame 0 is falsy), operands symbolic" % (shape, KINDS[k1]), max_paths=1500, wall_s=600 if T else 200, ob_ms=30000, feas_ms=500, samples=1)
        u.runner = _runner
        us.append(u)
    if T:
        for shape in (0, 2):
            u = Unit("history-norepair-shape%d" % shape, u_history, params={"shape": shape, "sweep0": 1, "steps": 1, "repair_rigid": None}, key="history", functions=FUNCS, bounds="as above with repair_rigid=None, mutation kind symbolic", max_paths=2000, wall_s=600, samples=1)
            u.runner = _runner
            us.append(u)
    return us
