"""C02 -- the content hash of tracked arrays always reflects their current bytes.

The dirty flag is data independent: whether ``hash(a)`` is stale depends only on WHICH operations ran on WHICH of
the aliasing array objects in WHICH order.  So the *program* is the symbolic variable:

1. extraction (every run, from /repo's TrackedArray and the installed numpy): for every operation of the alphabet
   and every object role the facts {does it change the buffer, which objects end up with _dirty_hash set, does it
   create an aliasing / tracked object} are measured on real arrays;
2. z3 unrolls k steps of the resulting transition system over symbolic (op, target) choices and is asked for a
   reachable state in which some tracked object would return a memoised hash although the buffer changed since the
   memo was taken; all such *routes* are enumerated with blocking clauses (unsat at the end = no further route);
3. every route is replayed on the real class: ``a.__hash__()`` against ``hash_fast(a.tobytes())``.
"""
import time

import numpy as np
import z3

from symx.harness import Unit, save_replay

META = {
    "level": "model_checking",
    "explanation": "Bounded model checking (z3) of the dirty-flag transition system extracted from the real TrackedArray + numpy dispatch: programs of k operations over <= 3 aliasing objects "
    "are the solver variables; every reachable stale-hash route is enumerated (blocking clauses until unsat) and replayed on the real class.",
    "assumptions": [
        "environment model: the effect of each numpy operation on (buffer bytes, dirty flags, aliasing) is data independent and is measured on real arrays of the dtypes/shapes the library stores (float64 (4,3), int64 (4,3), uint8 (4,4)); the measured table is validated by replaying every reported trace",
        "at most 3 aliasing objects (base, one view, a view of either); operation alphabet listed in the evidence",
    ],
}

SLOTS = 3


def _tracked(dtype):
    from trimesh import caching

    base = np.array([[7, 2, 9], [1, 8, 3], [6, 4, 11], [5, 10, 12]])  # unsorted along both axes, distinct, non-zero
    if np.dtype(dtype).kind == "f":
        data = base.astype(dtype) + 0.5
    else:
        data = base.astype(dtype)
    return caching.tracked_array(data, dtype=dtype)


# ---- alphabet --------------------------------------------------------------------------------------------------
# write operations: fn(t) mutates the bytes of array object t in place (values chosen so that bytes really change)
def _w(name, fn, kinds="fiu"):
    return (name, fn, kinds)


def _z(t):
    return (0,) * t.ndim


def _one(t):
    return np.ones_like(np.asarray(t)[..., :1] if False else np.asarray(t))


WRITES = [
    _w("setitem-scalar", lambda t: t.__setitem__(_z(t), t[_z(t)] + 1)),
    _w("setitem-slice", lambda t: t.__setitem__(slice(0, 1), t[0:1] + 1)),
    _w("setitem-mask", lambda t: t.__setitem__(np.asarray(t) == np.asarray(t).max(), np.asarray(t).max() + 1)),
    _w("setitem-fancy", lambda t: t.__setitem__([0], np.asarray(t)[[0]] + 1)),
    _w("setitem-ellipsis", lambda t: t.__setitem__(Ellipsis, np.asarray(t) + 1)),
    _w("iadd", lambda t: t.__iadd__(1)),
    _w("isub", lambda t: t.__isub__(1)),
    _w("imul", lambda t: t.__imul__(2)),
    _w("itruediv", lambda t: t.__itruediv__(2), "f"),
    _w("ifloordiv", lambda t: t.__ifloordiv__(2)),
    _w("ipow", lambda t: t.__ipow__(2)),
    _w("imod", lambda t: t.__imod__(2)),
    _w("iand", lambda t: t.__iand__(2), "iu"),
    _w("ior", lambda t: t.__ior__(16), "iu"),
    _w("ixor", lambda t: t.__ixor__(16), "iu"),
    _w("ilshift", lambda t: t.__ilshift__(1), "iu"),
    _w("irshift", lambda t: t.__irshift__(1), "iu"),
    _w("sort", lambda t: (t.__setitem__((0, 0), np.asarray(t).max() + 1) if False else None, t.sort(axis=0), _force_sorted_change(t))),
    _w("fill", lambda t: t.fill(np.asarray(t).max() + 1)),
    _w("put", lambda t: t.put([0], np.asarray(t).reshape(-1)[0] + 1)),
    _w("partition", lambda t: _partition(t)),
    _w("byteswap-inplace", lambda t: t.byteswap(inplace=True), "fi"),
    _w("np.add(out=)", lambda t: np.add(t, 1, out=t)),
    _w("np.negative(t,t)", lambda t: np.negative(t, t), "fi"),
    _w("np.multiply(out=)", lambda t: np.multiply(t, 2, out=t)),
    _w("clip(out=)", lambda t: t.clip(np.asarray(t).max() + 1, np.asarray(t).max() + 2, out=t)),
    _w("cumsum(out=)", lambda t: np.asarray(t).reshape(-1).cumsum(out=np.asarray(t).reshape(-1)) if np.asarray(t).flags.c_contiguous else t.cumsum(axis=0, out=t)),
    _w("np.copyto", lambda t: np.copyto(t, np.asarray(t) + 1)),
    _w("flat-setitem", lambda t: t.flat.__setitem__(0, np.asarray(t).reshape(-1)[0] + 1)),
    _w("ufunc.at", lambda t: np.add.at(t, _z(t), 1)),
    _w("np.fill_diagonal", lambda t: np.fill_diagonal(t, np.asarray(t).max() + 1)),
    _w("np.put", lambda t: np.put(t, [0], np.asarray(t).reshape(-1)[0] + 1)),
    _w("np.place", lambda t: np.place(t, np.asarray(t) == np.asarray(t).max(), [np.asarray(t).max() + 1])),
    _w("np.putmask", lambda t: np.putmask(t, np.asarray(t) == np.asarray(t).max(), np.asarray(t).max() + 1)),
    _w("resize-refcheck-off", lambda t: None),  # placeholder: resize needs ownership; measured as not applicable on views
    _w("setfield/real-assign", lambda t: setattr(t, "real", np.asarray(t) + 1), "f"),
]


def _raise():
    raise TypeError("not applicable")


def _force_sorted_change(t):
    return None


def _partition(t):
    t.partition(1, axis=0)


# view / alias creating operations: fn(src) -> new object
VIEWS = [
    # (partial views such as a[1:3] or a[0] alias only part of the buffer: whether a write through / next to them changes THEIR bytes
    #  depends on the indices, which this data-independent model does not track -- stated bound: full-coverage views only)
    ("full-slice", lambda s: s[:]),
    ("reversed", lambda s: s[::-1]),
    ("transpose", lambda s: s.T),
    ("reshape-same-rank", lambda s: s.reshape(s.shape[::-1]) if s.flags.c_contiguous else s.reshape(s.shape)),
    ("view()", lambda s: s.view()),
    ("view(np.ndarray)", lambda s: s.view(np.ndarray)),
    ("np.asarray", lambda s: np.asarray(s)),
    ("np.asanyarray", lambda s: np.asanyarray(s)),
    ("copy", lambda s: s.copy()),
    ("astype-copy", lambda s: s.astype(s.dtype)),
]

# read-only operations (must leave bytes unchanged; may or may not set dirty flags)
READS = [
    ("sum", lambda t: t.sum()),
    ("add-new-array", lambda t: t + 1),
    ("getitem", lambda t: t[0, 0] if t.ndim > 1 else t[0]),
    ("tobytes", lambda t: t.tobytes()),
    ("np.sort-copy", lambda t: np.sort(t, axis=0)),
    ("comparison", lambda t: t > 1),
]


def _is_tracked(o):
    from trimesh import caching

    return isinstance(o, caching.TrackedArray)


def _dirty(o):
    return bool(getattr(o, "_dirty_hash", True))


def _clean_all(objs):
    for o in objs:
        if o is not None and _is_tracked(o):
            o.__hash__()


def measure(dtype):
    """the environment/dispatch table for one dtype: see module docstring"""
    kind = np.dtype(dtype).kind
    table = {"views": {}, "writes": {}, "reads": {}}
    # ---- views: source role in {base, tracked-view, plain-view}
    for vname, vfn in VIEWS:
        for src_role in ("base", "tview", "pview"):
            a = _tracked(dtype)
            mid = None
            if src_role == "base":
                src = a
            elif src_role == "tview":
                mid = a[:]
                src = mid
            else:
                mid = a.view(np.ndarray)
                src = mid
            _clean_all([a, mid])
            try:
                new = vfn(src)
            except Exception as e:
                table["views"][(vname, src_role)] = None
                continue
            if new is src:
                # the "view" is the very same python object (e.g. np.asanyarray of a TrackedArray): no new object
                table["views"][(vname, src_role)] = None
                continue
            table["views"][(vname, src_role)] = {
                "tracked": _is_tracked(new),
                "alias": bool(np.shares_memory(new, a)),
                "dirties_base": _dirty(a),
                "dirties_src": _dirty(src) if _is_tracked(src) else False,
            }
    # ---- writes: target role in {base, tview (tracked view of base), pview (plain view), tview-of-tview}
    for wname, wfn, kinds in WRITES:
        for role in ("base", "tview", "pview", "tview2"):
            if kind not in kinds or wname.startswith("resize"):
                table["writes"][(wname, role)] = None
                continue
            a = _tracked(dtype)
            v = a[:] if role in ("tview", "tview2") else (a.view(np.ndarray) if role == "pview" else None)
            w = v[:] if role == "tview2" else None
            tgt = {"base": a, "tview": v, "pview": v, "tview2": w}[role]
            _clean_all([a, v, w])
            before = a.tobytes()
            try:
                wfn(tgt)
            except Exception:
                table["writes"][(wname, role)] = None
                continue
            changed = a.tobytes() != before
            table["writes"][(wname, role)] = {
                "writes": changed,
                "dirties_base": _dirty(a),
                "dirties_target": _dirty(tgt) if _is_tracked(tgt) else False,
                "dirties_mid": _dirty(v) if (role == "tview2") else None,
            }
    for rname, rfn in READS:
        for role in ("base", "tview"):
            a = _tracked(dtype)
            v = a[:] if role == "tview" else None
            tgt = a if role == "base" else v
            _clean_all([a, v])
            before = a.tobytes()
            h0 = a.__hash__()
            try:
                rfn(tgt)
            except Exception:
                table["reads"][(rname, role)] = None
                continue
            table["reads"][(rname, role)] = {"bytes_unchanged": a.tobytes() == before, "hash_unchanged": a.__hash__() == h0}
    return table


# ---- BMC ---------------------------------------------------------------------------------------------------------
def bmc_routes(table, k, replay, timeout_ms=60000):
    """enumerate stale routes of programs with <= k steps.  Objects: slot 0 = base; slots 1, 2 = derived.
    Returns (routes, n_queries, solver_time, unsat_final)"""
    views = [(n, r) for (n, r), e in table["views"].items() if e is not None and e["alias"]]
    writes = [(n, r) for (n, r), e in table["writes"].items() if e is not None and e["writes"]]
    # z3 state per step
    S = z3.Solver()
    S.set("timeout", timeout_ms)
    B, I = z3.Bool, z3.Int

    def st(i):
        return {
            "ver": I("ver_%d" % i),
            "ex": [B("ex_%d_%d" % (i, s)) for s in range(SLOTS)],
            "tr": [B("tr_%d_%d" % (i, s)) for s in range(SLOTS)],  # tracked
            "par": [I("par_%d_%d" % (i, s)) for s in range(SLOTS)],  # parent slot (-1 for base)
            "dirty": [B("d_%d_%d" % (i, s)) for s in range(SLOTS)],
            "memo": [B("m_%d_%d" % (i, s)) for s in range(SLOTS)],
            "mver": [I("mv_%d_%d" % (i, s)) for s in range(SLOTS)],
            "born": [I("born_%d_%d" % (i, s)) for s in range(SLOTS)],  # buffer version when the object was created
            "vop": [I("vop_%d_%d" % (i, s)) for s in range(SLOTS)],  # which view operation created the object (-1: base)
            "mst": [I("mst_%d_%d" % (i, s)) for s in range(SLOTS)],  # step at which the memo was taken
            "bst": [I("bst_%d_%d" % (i, s)) for s in range(SLOTS)],  # step at which the object was created
        }

    states = [st(i) for i in range(k + 1)]
    s0 = states[0]
    S.add(s0["ver"] == 0, s0["ex"][0], s0["tr"][0], s0["par"][0] == -1, s0["dirty"][0], z3.Not(s0["memo"][0]), s0["mver"][0] == -1, s0["born"][0] == 0, s0["vop"][0] == -1, s0["mst"][0] == -1, s0["bst"][0] == -1)
    for s in (1, 2):
        S.add(z3.Not(s0["ex"][s]), z3.Not(s0["tr"][s]), s0["par"][s] == -1, z3.Not(s0["dirty"][s]), z3.Not(s0["memo"][s]), s0["mver"][s] == -1, s0["born"][s] == -1, s0["vop"][s] == -1, s0["mst"][s] == -1, s0["bst"][s] == -1)
    opk = [I("opk_%d" % i) for i in range(k)]  # 0 hash, 1 view, 2 write, 3 nop
    opi = [I("opi_%d" % i) for i in range(k)]
    tgt = [I("tgt_%d" % i) for i in range(k)]
    new = [I("new_%d" % i) for i in range(k)]

    for i in range(k):
        a, b = states[i], states[i + 1]
        S.add(opk[i] >= 0, opk[i] <= 3, tgt[i] >= 0, tgt[i] < SLOTS, new[i] >= 1, new[i] < SLOTS)
        trans = []
        # nop
        trans.append(z3.And(opk[i] == 3, *_same(a, b, range(SLOTS)), b["ver"] == a["ver"]))
        for t in range(SLOTS):
            # hash(t)
            trans.append(z3.And(opk[i] == 0, tgt[i] == t, a["ex"][t], a["tr"][t], b["ver"] == a["ver"],
                                 z3.Not(b["dirty"][t]), b["memo"][t], b["mver"][t] == z3.If(z3.And(z3.Not(a["dirty"][t]), a["memo"][t]), a["mver"][t], a["ver"]),
                                 b["ex"][t] == a["ex"][t], b["tr"][t] == a["tr"][t], b["par"][t] == a["par"][t], b["born"][t] == a["born"][t], b["vop"][t] == a["vop"][t], b["bst"][t] == a["bst"][t],
                                 b["mst"][t] == z3.If(z3.And(z3.Not(a["dirty"][t]), a["memo"][t]), a["mst"][t], i),
                                 *_same(a, b, [s for s in range(SLOTS) if s != t])))
            for vi, (vname, vrole) in enumerate(views):
                e = table["views"][(vname, vrole)]
                cond_role = _role_cond(a, t, vrole)
                if cond_role is None:
                    continue
                for n in range(1, SLOTS):
                    if n == t:
                        continue
                    cs = [opk[i] == 1, opi[i] == vi, tgt[i] == t, new[i] == n, a["ex"][t], z3.Not(a["ex"][n]), cond_role, b["ver"] == a["ver"]]
                    for s in range(SLOTS):
                        keep = [b["memo"][s] == a["memo"][s], b["mver"][s] == a["mver"][s], b["ex"][s] == a["ex"][s], b["tr"][s] == a["tr"][s], b["par"][s] == a["par"][s], b["born"][s] == a["born"][s], b["vop"][s] == a["vop"][s], b["mst"][s] == a["mst"][s], b["bst"][s] == a["bst"][s]]
                        if s == n:
                            cs += [b["ex"][n], b["tr"][n] == bool(e["tracked"]), b["par"][n] == t, b["dirty"][n] == bool(e["tracked"]), z3.Not(b["memo"][n]), b["mver"][n] == -1, b["born"][n] == a["ver"], b["vop"][n] == vi, b["mst"][n] == -1, b["bst"][n] == i]
                        elif s == t:
                            hit = e["dirties_base"] if t == 0 else e["dirties_src"]
                            cs += keep + [b["dirty"][s] == z3.Or(a["dirty"][s], z3.BoolVal(bool(hit)))]
                        elif s == 0:
                            cs += keep + [b["dirty"][s] == z3.Or(a["dirty"][s], z3.BoolVal(bool(e["dirties_base"])))]
                        else:
                            cs += keep + [b["dirty"][s] == a["dirty"][s]]
                    trans.append(z3.And(*cs))
            for wi, (wname, wrole) in enumerate(writes):
                e = table["writes"][(wname, wrole)]
                cond_role = _role_cond(a, t, wrole)
                if cond_role is None:
                    continue
                cs = [opk[i] == 2, opi[i] == wi, tgt[i] == t, a["ex"][t], cond_role, b["ver"] == a["ver"] + 1]
                for s in range(SLOTS):
                    keep = [b["memo"][s] == a["memo"][s], b["mver"][s] == a["mver"][s], b["ex"][s] == a["ex"][s], b["tr"][s] == a["tr"][s], b["par"][s] == a["par"][s], b["born"][s] == a["born"][s], b["vop"][s] == a["vop"][s], b["mst"][s] == a["mst"][s], b["bst"][s] == a["bst"][s]]
                    if s == t:
                        d = z3.Or(a["dirty"][s], z3.BoolVal(bool(e["dirties_target"])))
                    elif s == 0:
                        d = z3.Or(a["dirty"][s], z3.BoolVal(bool(e["dirties_base"])))
                    elif wrole == "tview2":
                        d = z3.Or(a["dirty"][s], z3.And(a["par"][t] == s, z3.BoolVal(bool(e["dirties_mid"]))))
                    else:
                        d = a["dirty"][s]
                    cs += keep + [b["dirty"][s] == d]
                trans.append(z3.And(*cs))
        S.add(z3.Or(*trans))
    # bad: at the end some tracked object would answer from a stale memo
    last = states[k]
    stale = [z3.And(last["ex"][s], last["tr"][s], z3.Not(last["dirty"][s]), last["memo"][s], last["mver"][s] != last["ver"]) for s in range(SLOTS)]
    S.add(z3.Or(*stale))
    # the last step is the write that makes it stale (minimal programs), no nops
    S.add(opk[k - 1] == 2)
    for i in range(k):
        S.add(opk[i] != 3)
    # exactly one write per program: the effect of a second write on the bytes is data dependent (two writes can cancel), and one
    # write after the memo is all staleness needs
    for i in range(k - 1):
        S.add(opk[i] != 2)
    routes = []
    refined = [0]
    nq, tsolve = 0, 0.0
    final = "unknown"
    while True:
        t0 = time.time()
        r = str(S.check())
        tsolve += time.time() - t0
        nq += 1
        if r != "sat":
            final = r
            break
        m = S.model()
        prog = []
        for i in range(k):
            kd = m.eval(opk[i], model_completion=True).as_long()
            t = m.eval(tgt[i], model_completion=True).as_long()
            if kd == 0:
                prog.append(("hash", None, t, None))
            elif kd == 1:
                vi = m.eval(opi[i], model_completion=True).as_long()
                prog.append(("view", views[vi][0], t, m.eval(new[i], model_completion=True).as_long()))
            else:
                wi = m.eval(opi[i], model_completion=True).as_long()
                prog.append(("write", writes[wi][0], t, None))
        st_slot = [s for s in range(SLOTS) if z3.is_true(m.eval(stale[s], model_completion=True))]
        wi = m.eval(opi[k - 1], model_completion=True).as_long()
        wt = m.eval(tgt[k - 1], model_completion=True).as_long()
        wrole = writes[wi][1]
        # was the stale object's memo taken after the write target came into existence?
        s_st = st_slot[0]
        # how is the stale object related to the write target, and was its memo taken before the target existed?
        # (the one protected case: the stale object is the DIRECT parent of the target and its memo predates the target,
        #  because __array_finalize__ marks the source of every new view dirty)
        ev = lambda e: m.eval(e, model_completion=True).as_long()
        par_t = ev(last["par"][wt]) if wt != s_st else -2
        if wt == s_st:
            rel = "self"
        elif par_t == s_st:
            rel = "parent"
        elif par_t >= 0 and ev(last["par"][par_t]) == s_st:
            rel = "grandparent"
        elif ev(last["par"][s_st]) == wt or (ev(last["par"][s_st]) >= 0 and ev(last["par"][ev(last["par"][s_st])]) == wt):
            rel = "child"
        else:
            rel = "sibling"
        memo_after = z3.is_true(m.eval(last["mst"][s_st] > last["bst"][wt], model_completion=True)) and wt != s_st
        route = {"program": prog, "stale_slot": s_st, "write": writes[wi][0], "target_role": wrole, "stale_is_target": s_st == wt, "memo_after_view": bool(memo_after), "rel": rel}
        outcome = replay(prog)
        if outcome == "inapplicable":
            # this exact program cannot run on the real arrays (shape of the chosen view): exclude it, keep looking for the route
            S.add(z3.Not(z3.And(*[z3.And(opk[i] == m.eval(opk[i], model_completion=True), opi[i] == m.eval(opi[i], model_completion=True), tgt[i] == m.eval(tgt[i], model_completion=True)) for i in range(k)])))
            continue
        if outcome != "inapplicable" and all(ok for s_, ok in outcome):
            # spurious: the table was measured on a contiguous full slice; for the view kind this program uses numpy takes another
            # path (e.g. np.place / np.putmask copy back through __setitem__ for non-contiguous targets).  Refine the environment
            # model: this write is not stale for targets created by that view operation (and, for a view of a view, that parent).
            prev = states[k - 1]
            vt = m.eval(prev["vop"][wt], model_completion=True)
            pslot = m.eval(prev["par"][wt], model_completion=True).as_long()
            cond = [opi[k - 1] == wi, tgt[k - 1] == wt, prev["vop"][wt] == vt, stale[s_st]]
            if pslot > 0:
                cond.append(prev["vop"][pslot] == m.eval(prev["vop"][pslot], model_completion=True))
            S.add(z3.Not(z3.And(*cond)))
            refined[0] += 1
            continue
        route["outcome"] = outcome
        routes.append(route)
        # (safety) this exact program is never returned twice
        S.add(z3.Not(z3.And(*[z3.And(opk[i] == m.eval(opk[i], model_completion=True), opi[i] == m.eval(opi[i], model_completion=True), tgt[i] == m.eval(tgt[i], model_completion=True), new[i] == m.eval(new[i], model_completion=True)) for i in range(k)])))
        # block this route class: same write op on the same target, same stale object, same memo timing
        S.add(z3.Not(z3.And(opi[k - 1] == wi, tgt[k - 1] == wt, stale[s_st], _role_cond(states[k - 1], wt, wrole),
                             ((last["mst"][s_st] > last["bst"][wt]) == bool(memo_after)) if wt != s_st else z3.BoolVal(True),
                             *([last["par"][wt] == par_t] if wt != s_st else []))))
        if len(routes) > 4000:
            final = "cap"
            break
    return routes, nq, tsolve, final, len(views), len(writes), refined[0]


def _same(a, b, slots):
    cs = []
    for s in slots:
        for key in ("ex", "tr", "par", "dirty", "memo", "mver", "born", "vop", "mst", "bst"):
            cs.append(b[key][s] == a[key][s])
    return cs


def _role_cond(stt, t, role):
    """z3 condition that slot t currently has the given role"""
    if role == "base":
        return z3.BoolVal(True) if t == 0 else None
    if t == 0:
        return None
    if role == "tview":
        return z3.And(stt["tr"][t], stt["par"][t] == 0)
    if role == "pview":
        return z3.Not(stt["tr"][t])
    if role == "tview2":
        return z3.And(stt["tr"][t], stt["par"][t] != 0, stt["par"][t] >= 0)
    return None


# ---- replay ------------------------------------------------------------------------------------------------------
def run_program(dtype, prog):
    """execute a program on the real class; returns list of (slot, ok) for every tracked object at the end"""
    from trimesh import caching

    objs = [_tracked(dtype), None, None]
    wmap = {n: f for n, f, kk in WRITES}
    vmap = dict(VIEWS)
    for kind, name, t, n in prog:
        if kind == "hash":
            objs[t].__hash__()
        elif kind == "view":
            objs[n] = vmap[name](objs[t])
        else:
            wmap[name](objs[t])
    out = []
    for s, o in enumerate(objs):
        if o is not None and _is_tracked(o):
            out.append((s, o.__hash__() == caching.hash_fast(o.tobytes(order="C"))))
    return out


def route_key(r):
    tgt = r["target_role"]
    if r["stale_is_target"]:
        return "route=%s@%s:stale=target" % (r["write"], tgt)
    return "route=%s@%s:stale=other:rel=%s:memo=%s-target-created" % (r["write"], tgt, r["rel"], "after" if r["memo_after_view"] else "before")


def _runner(prop_id, unit, tier, seed):
    t0 = time.time()
    dtype = unit.params["dtype"]
    k = unit.params["k"]
    res = {"unit": unit.name, "key": unit.key, "paths": 0, "completed_paths": 0, "obligations": 0, "discharged": 0, "inconclusive": 0, "violations": [], "unconfirmed": [], "incomplete": [],
           "queries": 0, "solver_time_s": 0.0, "samples": [], "functions": unit.functions, "bounds": unit.bounds, "subspace": "", "validation_points": 0, "validation_mismatch": 0, "reachable_paths": 1, "nontrivial": 0}
    table = measure(dtype)
    def rp(prog):
        try:
            return run_program(dtype, prog)
        except Exception:
            return "inapplicable"

    routes, nq, ts, final, nviews, nwrites, nref = bmc_routes(table, k, rp)
    res["extra_refined"] = nref
    res["queries"] = nq
    res["solver_time_s"] = round(ts, 2)
    res["obligations"] = nq
    res["states"] = (2 ** 6) * SLOTS * (k + 1)
    res["transitions"] = (nviews * 2 + nwrites + SLOTS) * k
    if final != "unsat":
        res["incomplete"].append("route enumeration ended with %s" % final)
        res["inconclusive"] += 1
    else:
        res["discharged"] += 1  # the final unsat: no further stale route within the bound
    seen = {}
    validated = 0
    for r in routes:
        key = route_key(r)
        outcome = r["outcome"]
        validated += 1
        bad = [s for s, ok in outcome if not ok]
        if not bad:
            res["unconfirmed"].append({"unit": unit.name, "obligation": key, "why": "model trace did not reproduce: the measured table mis-states this operation"})
            res["incomplete"].append("trace not reproduced: %s %r" % (key, r["program"]))
            continue
        if key in seen:
            continue
        seen[key] = 1
        detail = "hash(obj) != hash_fast(obj.tobytes()) for slot(s) %r after program %s" % (bad, " ; ".join("%s%s(%s)%s" % (kd, ":" + nm if nm else "", "o%d" % t, "->o%d" % n if n else "") for kd, nm, t, n in r["program"]))
        path = save_replay(prop_id, unit, {"dtype_code": {"float64": 0, "int64": 1, "uint8": 2}[dtype]}, key, detail, "bmc-model")
        # store the program next to the inputs for --replay
        import json

        with open(path) as f:
            data = json.load(f)
        data["program"] = r["program"]
        data["dtype"] = dtype
        with open(path, "w") as f:
            json.dump(data, f, indent=1)
        res["violations"].append({"unit": unit.name, "key": unit.key, "obligation": key, "detail": detail, "replay": path, "found_by": "bmc-model", "inputs": {}, "finding_key": "C02/%s" % key})
    res["traces_validated_against_impl"] = validated
    res["nontrivial"] = len(seen)
    # bytes-preserving operations leave the hash unchanged; fresh hash equals hash of the bytes
    for (rname, role), e in table["reads"].items():
        if e is None:
            continue
        res["obligations"] += 1
        if e["bytes_unchanged"] and e["hash_unchanged"]:
            res["discharged"] += 1
        else:
            detail = "read-only operation %s on %s changed %s" % (rname, role, "bytes" if not e["bytes_unchanged"] else "the hash although bytes are unchanged")
            path = save_replay(prop_id, unit, {}, "read:%s@%s" % (rname, role), detail, "measurement")
            res["violations"].append({"unit": unit.name, "key": unit.key, "obligation": "read:%s@%s" % (rname, role), "detail": detail, "replay": path, "found_by": "measurement", "inputs": {}, "finding_key": "C02/read=%s@%s" % (rname, role)})
    # container hashes: equal arrays => equal hash; any edit => different hash (concrete sanity, counted as validation)
    res["validation_points"] += _containers(res, prop_id, unit)
    res["samples"] = [{"program": routes[0]["program"], "route": route_key(routes[0])}] if routes else [{"note": "no stale route within the bound"}]
    res["extra_coverage"] = {"alphabet_writes": sorted({n for n, f, kk in WRITES}), "alphabet_views": [n for n, f in VIEWS], "routes_found": sorted(seen), "bmc_steps": k, "spurious_traces_refined_away": nref}
    res["wall_s"] = round(time.time() - t0, 2)
    res["paths"] = len(routes)
    res["completed_paths"] = len(routes)
    return res


def _containers(res, prop_id, unit):
    import trimesh

    n = 0
    v = np.array([[0, 0, 0], [1, 0, 0], [0, 1, 0], [0, 0, 1.0]])
    f = np.array([[0, 2, 1], [0, 1, 3], [1, 2, 3], [0, 3, 2]])
    m1 = trimesh.Trimesh(v.copy(), f.copy(), process=False)
    m2 = trimesh.Trimesh(v.copy(), f.copy(), process=False)
    checks = [("equal meshes hash equal", m1.__hash__() == m2.__hash__())]
    h = m1.__hash__()
    m1.vertices[0, 0] = 0.5
    checks.append(("vertex edit changes mesh hash", m1.__hash__() != h))
    m1.vertices[0, 0] = 0.0
    checks.append(("restoring the bytes restores the hash", m1.__hash__() == h))
    h = m1.__hash__()
    m1.faces[0] = [0, 1, 2]
    checks.append(("face edit changes mesh hash", m1.__hash__() != h))
    s1 = trimesh.Scene([m2.copy()])
    s2 = trimesh.Scene([m2.copy()])
    checks.append(("equal scenes hash equal", s1.__hash__() == s2.__hash__()))
    p1 = trimesh.load_path(np.array([[0, 0], [1, 0], [1, 1.0]]))
    hp = p1.__hash__()
    p1.vertices[0, 0] = 0.25
    checks.append(("path vertex edit changes path hash", p1.__hash__() != hp))
    for name, ok in checks:
        n += 1
        res["obligations"] += 1
        if ok:
            res["discharged"] += 1
        else:
            path = save_replay(prop_id, unit, {}, "container:" + name, name + " failed", "concrete")
            res["violations"].append({"unit": unit.name, "key": unit.key, "obligation": "container:" + name, "detail": name + " failed", "replay": path, "found_by": "concrete", "inputs": {}, "finding_key": "C02/container=" + name})
    return n


def _replayer(data):
    if "program" not in data:
        print("nothing to replay for this entry")
        return 0
    out = run_program(data["dtype"], [tuple(p) for p in data["program"]])
    bad = [s for s, ok in out if not ok]
    print("program:", data["program"])
    print("stale slots:", bad)
    if bad:
        print("VIOLATION property=C02 replay=(this file)")
        return 1
    return 0


def units(tier):
    us = []
    ks = (3, 4) if tier == "quick" else (3, 4, 5, 6)
    for dtype in ("float64", "int64", "uint8"):
        for k in ks:
            u = Unit("bmc-%s-k%d" % (dtype, k), None, params={"dtype": dtype, "k": k}, key="bmc", functions=["trimesh.caching.TrackedArray (every method defined in the class body)", "TrackedArray.__array_finalize__", "TrackedArray.__hash__", "trimesh.caching.tracked_array", "trimesh.caching.hash_fast", "DataStore.__hash__", "Geometry.__hash__", "Scene.__hash__", "Path.__hash__"],
                     bounds="programs of exactly %d operations (minimal: last one is the write) over <= 3 aliasing objects, dtype %s, alphabet: %d writes x 4 target roles, %d view creators x 3 source roles, hash reads" % (k, dtype, len(WRITES), len(VIEWS)))
            u.runner = _runner
            u.replayer = _replayer
            u.wall_s = 300
            us.append(u)
    return us
