"""C13 -- voxel encodings are interchangeable and run-length codecs lossless."""
import numpy as np

from symx import nparr
from symx.lib import l_and, l_count, l_iff, l_not, l_or
from symx.harness import Unit as _Unit


def Unit(*a, **k):
    k.setdefault("opts", {"int_zeros_object": True})
    return _Unit(*a, **k)

META = {
    "level": "other",
    "explanation": "Encoded-domain regime: the real trimesh.voxel.runlength functions run on symbolic run COUNTS (z3 Ints of any magnitude up to the stated multiple of the count "
    "dtype maximum); 'decodes to the same dense array' is one universally quantified position p (value(enc,p) defined by prefix sums), so runs of 2^40 cost as much as runs of 2. "
    "Dense-domain regime: symbolic bool / int arrays of length <= 6 through dense<->rle/brle, gathers, masks, sparse forms and the Encoding classes.",
    "assumptions": ["counts are non-negative integers (the encodings' validity predicate)", "np.repeat / np.arange with symbolic lengths are concretised by solver-driven forks inside the stated bound"],
}


# ------------------------------------------------------------------------------------------------ oracle: value at position p
def brle_val(counts, p):
    """truth value at dense position p of a BRLE (runs alternate starting with False)"""
    acc = 0
    hit = False
    for i, c in enumerate(counts):
        lo = acc
        acc = acc + c
        if i % 2 == 1:
            hit = l_or(hit, l_and(p >= lo, p < acc))
    return hit


def rle_val(values, counts, p, ctx):
    """value at dense position p of an RLE"""
    acc = 0
    pre = []
    for v, c in zip(values, counts):
        lo = acc
        acc = acc + c
        pre.append((l_and(p >= lo, p < acc), v))
    if ctx.sym:
        import z3
        from symx.core import Sym, _bterm, _term

        t = z3.IntVal(-(10**9))
        for cond, v in reversed(pre):
            t = z3.If(_bterm(cond), _term(v), t)
        return Sym(t)
    for cond, v in pre:
        if cond:
            return int(v)
    return -(10**9)


def total(counts):
    t = 0
    for c in counts:
        t = t + c
    return t


def _counts(ctx, name, k, hi):
    c = ctx.ints(name, k, 0, hi)
    return c


def _aslist(x):
    """python list of the elements; concrete numpy integers become python ints (no uint8 wrap-around in the oracle)"""
    xs = list(nparr.base(x).reshape(-1)) if isinstance(x, np.ndarray) else list(x)
    return [int(v) if isinstance(v, (np.integer, np.bool_)) else v for v in xs]


def _pos(ctx, length):
    p = ctx.int("p", 0, None)
    return p


def _same_brle(ctx, name, a, b, flip=False, shift=None):
    """BRLE a and b decode to the same dense array (for every position p)"""
    a, b = _aslist(a), _aslist(b)
    p = ctx.int("p", 0, None)
    la, lb = total(a), total(b)
    ctx.eq(name + ": same dense length", lb, la)
    va, vb = brle_val(a, p), brle_val(b, p)
    inside = p < la
    ctx.true(name + ": same value at every position p", l_or(l_not(inside), l_iff(va, vb)))
    if not ctx.sym:
        # breakpoints of both encodings decide equality of piecewise constant functions
        ok = True
        for enc in (a, b):
            acc = 0
            for c in enc:
                for q in (acc - 1, acc):
                    if 0 <= q < int(la):
                        ok = ok and (bool(brle_val(a, q)) == bool(brle_val(b, q)))
                acc += int(c)
        ctx.true(name + ": same value at every run boundary", ok)


def _same_rle(ctx, name, va, ca, vb, cb):
    va, ca, vb, cb = _aslist(va), _aslist(ca), _aslist(vb), _aslist(cb)
    p = ctx.int("p", 0, None)
    la, lb = total(ca), total(cb)
    ctx.eq(name + ": same dense length", lb, la)
    ctx.true(name + ": same value at every position p", l_or(l_not(p < la), rle_val(va, ca, p, ctx) == rle_val(vb, cb, p, ctx)))
    if not ctx.sym:
        ok = True
        for enc in (ca, cb):
            acc = 0
            for c in enc:
                for q in (acc - 1, acc):
                    if 0 <= q < int(la):
                        ok = ok and (rle_val(va, ca, q, ctx) == rle_val(vb, cb, q, ctx))
                acc += int(c)
        ctx.true(name + ": same value at every run boundary", ok)


DT = {"uint8": np.uint8, "uint16": np.uint16, "int64": np.int64}


# ------------------------------------------------------------------------------------------------ encoded-domain units
def u_merge_brle(ctx):
    from trimesh.voxel import runlength as R

    k = ctx.params["k"]
    c = _counts(ctx, "c", k, None)
    out = R.merge_brle_lengths(c)
    _same_brle(ctx, "merge_brle_lengths", c, out)


def u_split_brle(ctx):
    from trimesh.voxel import runlength as R

    k, dt = ctx.params["k"], DT[ctx.params["dtype"]]
    m = int(np.iinfo(dt).max)
    c = _counts(ctx, "c", k, 3 * m + 7)
    out = R.split_long_brle_lengths(c, dtype=dt)
    _same_brle(ctx, "split_long_brle_lengths(%s)" % ctx.params["dtype"], c, out)
    ctx.true("every count fits the dtype", l_and(*[l_and(x <= m, x >= 0) for x in _aslist(out)]))


def u_brle_to_brle(ctx):
    from trimesh.voxel import runlength as R

    k, dt = ctx.params["k"], DT[ctx.params["dtype"]]
    m = int(np.iinfo(dt).max)
    c = _counts(ctx, "c", k, 2 * m + 3)
    out = R.brle_to_brle(c, dtype=dt)
    _same_brle(ctx, "brle_to_brle(%s)" % ctx.params["dtype"], c, out)
    ctx.true("every count fits the dtype", l_and(*[l_and(x <= m, x >= 0) for x in _aslist(out)]))


def u_merge_rle(ctx):
    from trimesh.voxel import runlength as R

    k = ctx.params["k"]
    v = ctx.ints("v", k, 0, 2)
    c = _counts(ctx, "c", k, None)
    ov, oc = R.merge_rle_lengths(v, c)
    _same_rle(ctx, "merge_rle_lengths", v, c, ov, oc)


def u_split_rle(ctx):
    from trimesh.voxel import runlength as R

    k, dt = ctx.params["k"], DT[ctx.params["dtype"]]
    m = int(np.iinfo(dt).max)
    v = ctx.ints("v", k, 0, 2)
    c = _counts(ctx, "c", k, 2 * m + 3)
    ov, oc = R.split_long_rle_lengths(v, c, dtype=dt)
    _same_rle(ctx, "split_long_rle_lengths(%s)" % ctx.params["dtype"], v, c, ov, oc)
    ctx.true("every count fits the dtype", l_and(*[l_and(x <= m, x >= 0) for x in _aslist(oc)]))


def u_rle_to_rle(ctx):
    from trimesh.voxel import runlength as R

    k, dt = ctx.params["k"], DT[ctx.params["dtype"]]
    m = int(np.iinfo(dt).max)
    v = ctx.ints("v", k, 0, 2)
    c = _counts(ctx, "c", k, 2 * m + 3)
    rle = np.stack([nparr.base(v), nparr.base(c)], axis=1).reshape(-1) if ctx.sym else np.stack([v, c], axis=1).reshape(-1)
    rle = nparr.set_sd(nparr.wrap(rle), np.int64) if ctx.sym else rle
    out = R.rle_to_rle(rle, dtype=dt)
    out = _aslist(out)
    _same_rle(ctx, "rle_to_rle(%s)" % ctx.params["dtype"], v, c, out[0::2], out[1::2])
    ctx.true("every count fits the dtype", l_and(*[l_and(x <= m, x >= 0) for x in out[1::2]]))


def u_brle_rle(ctx):
    """brle_to_rle and rle_to_brle agree with the dense meaning"""
    from trimesh.voxel import runlength as R

    k = ctx.params["k"]
    c = _counts(ctx, "c", k, 2**40)
    rle = _aslist(R.brle_to_rle(c))
    p = ctx.int("p", 0, None)
    ctx.eq("brle_to_rle: length", total(rle[1::2]), total(_aslist(c)))
    got = rle_val(rle[0::2], rle[1::2], p, ctx)
    exp = brle_val(_aslist(c), p)
    ctx.true("brle_to_rle: same value at every position", l_or(l_not(p < total(_aslist(c))), l_iff(got == 1, exp) if ctx.sym else (bool(got == 1) == bool(exp))))
    ctx.true("brle_to_rle: values are 0/1", l_and(*[l_or(x == 0, x == 1) for x in rle[0::2]]))
    # and back
    v = ctx.ints("v", k, 0, 1)
    rle2 = np.stack([nparr.base(v), nparr.base(c)], axis=1).reshape(-1) if ctx.sym else np.stack([v, c], axis=1).reshape(-1)
    rle2 = nparr.set_sd(nparr.wrap(rle2), np.int64) if ctx.sym else rle2
    br = R.rle_to_brle(rle2)
    ctx.eq("rle_to_brle: length", total(_aslist(br)), total(_aslist(c)))
    ctx.true("rle_to_brle: same value at every position", l_or(l_not(p < total(_aslist(c))), l_iff(brle_val(_aslist(br), p), rle_val(_aslist(v), _aslist(c), p, ctx) == 1)))
    ctx.concrete_equal("rle_to_brle: even number of counts", len(br) % 2, 0)


def u_reverse(ctx):
    from trimesh.voxel import runlength as R

    k = ctx.params["k"]
    c = _counts(ctx, "c", k, None)
    rev = _aslist(R.brle_reverse(c))
    L = total(_aslist(c))
    p = ctx.int("p", 0, None)
    ctx.eq("brle_reverse: length", total(rev), L)
    ctx.true("brle_reverse: value(p) = original(L-1-p)", l_or(l_not(p < L), l_iff(brle_val(rev, p), brle_val(_aslist(c), L - 1 - p))))
    if k % 2 == 0:
        v = ctx.ints("v", k // 2, 0, 2)
        rle = []
        for i in range(k // 2):
            rle += [v[i], c[2 * i + 1]]
        arr = nparr.set_sd(nparr.wrap(np.array(rle, dtype=object)), np.int64) if ctx.sym else np.array(rle)
        rr = _aslist(R.rle_reverse(arr))
        L2 = total(rle[1::2])
        ctx.eq("rle_reverse: length", total(rr[1::2]), L2)
        ctx.true("rle_reverse: value(p) = original(L-1-p)", l_or(l_not(p < L2), rle_val(rr[0::2], rr[1::2], p, ctx) == rle_val(rle[0::2], rle[1::2], L2 - 1 - p, ctx)))


def u_logical_not(ctx):
    from trimesh.voxel import runlength as R

    k = ctx.params["k"]
    c = _counts(ctx, "c", k, None)
    out = _aslist(R.brle_logical_not(c))
    L = total(_aslist(c))
    p = ctx.int("p", 0, None)
    ctx.eq("brle_logical_not: length", total(out), L)
    ctx.true("brle_logical_not: value(p) = not original(p)", l_or(l_not(p < L), l_iff(brle_val(out, p), l_not(brle_val(_aslist(c), p)))))
    ctx.eq("brle_length", R.brle_length(c), L)


def u_strip(ctx):
    from trimesh.voxel import runlength as R

    k = ctx.params["k"]
    c = _counts(ctx, "c", k, None)
    out, (start, end) = R.brle_strip(c)
    out = _aslist(out)
    L = total(_aslist(c))
    p = ctx.int("p", 0, None)
    if ctx.sym:
        anyset = l_or(*[x > 0 for x in _aslist(c)[1::2]]) if k > 1 else False
    else:
        anyset = any(int(x) > 0 for x in _aslist(c)[1::2])
    # (for all-empty data every cell is both leading and trailing padding: the split is not defined, only claimed otherwise)
    ctx.true("brle_strip: lengths add up", l_or(l_not(anyset), start + total(out) + end == L))
    ctx.true("brle_strip: padding positions are empty", l_or(l_not(p < L), l_not(l_or(p < start, p >= L - end)), l_not(brle_val(_aslist(c), p))))
    ctx.true("brle_strip: interior equals the original shifted", l_or(l_not(p < total(out)), l_iff(brle_val(out, p), brle_val(_aslist(c), p + start))))
    if ctx.sym:
        anyset = l_or(*[x > 0 for x in _aslist(c)[1::2]]) if k > 1 else False
    else:
        anyset = any(int(x) > 0 for x in _aslist(c)[1::2])
    ctx.true("brle_strip: stripped data starts and ends with a filled cell (unless all empty)",
             l_or(l_not(anyset), l_and(brle_val(out, 0), brle_val(out, total(out) - 1))))


def u_rle_strip(ctx):
    from trimesh.voxel import runlength as R

    k = ctx.params["k"]
    v = ctx.ints("v", k, 0, 2)
    c = _counts(ctx, "c", k, None)
    rle = np.stack([nparr.base(v), nparr.base(c)], axis=1).reshape(-1) if ctx.sym else np.stack([v, c], axis=1).reshape(-1)
    rle = nparr.set_sd(nparr.wrap(rle), np.int64) if ctx.sym else rle
    out, (start, end) = R.rle_strip(rle)
    out = _aslist(out)
    L = total(_aslist(c))
    p = ctx.int("p", 0, None)
    anyset = l_or(*[l_and(x != 0, y > 0) for x, y in zip(_aslist(v), _aslist(c))])
    ctx.true("rle_strip: lengths add up", l_or(l_not(anyset), start + total(out[1::2]) + end == L))
    ctx.true("rle_strip: padding positions are zero", l_or(l_not(p < L), l_not(l_or(p < start, p >= L - end)), rle_val(_aslist(v), _aslist(c), p, ctx) == 0))
    ctx.true("rle_strip: interior equals the original shifted", l_or(l_not(p < total(out[1::2])), rle_val(out[0::2], out[1::2], p, ctx) == rle_val(_aslist(v), _aslist(c), p + start, ctx)))
    ctx.eq("rle_length", R.rle_length(rle), L)


def u_gather(ctx):
    """sorted / unsorted gathers equal dense indexing, without building the dense array"""
    from trimesh.voxel import runlength as R

    k, n = ctx.params["k"], ctx.params["n"]
    c = _counts(ctx, "c", k, None)
    L = total(_aslist(c))
    idx = ctx.ints("i", n, 0, None)
    for x in _aslist(idx):
        ctx.assume(x < L)
    if ctx.params["sorted"]:
        for a, b in zip(_aslist(idx)[:-1], _aslist(idx)[1:]):
            ctx.assume(a <= b)
        got = list(R.sorted_brle_gather_1d(c, idx))
    else:
        got = list(R.brle_gather_1d(c, idx))
    ctx.concrete_equal("gather returns one value per index", len(got), n)
    ctx.true("brle gather = dense[index]", l_and(*[l_iff(bool(g) if not ctx.sym else g, brle_val(_aslist(c), i)) for g, i in zip(got, _aslist(idx))]))
    v = ctx.ints("v", k, 0, 2)
    rle = np.stack([nparr.base(v), nparr.base(c)], axis=1).reshape(-1) if ctx.sym else np.stack([v, c], axis=1).reshape(-1)
    rle = nparr.set_sd(nparr.wrap(rle), np.int64) if ctx.sym else rle
    if ctx.params["sorted"]:
        got2 = list(R.sorted_rle_gather_1d(rle, idx))
    else:
        got2 = list(R.rle_gather_1d(rle, idx))
    ctx.concrete_equal("rle gather returns one value per index", len(got2), n)
    ctx.true("rle gather = dense[index]", l_and(*[g == rle_val(_aslist(v), _aslist(c), i, ctx) for g, i in zip(got2, _aslist(idx))]))


# ------------------------------------------------------------------------------------------------ dense-domain units
def _dense_of_brle(c):
    out = []
    val = False
    for x in c:
        out += [val] * int(x)
        val = not val
    return out


def u_dense_roundtrip(ctx):
    from trimesh.voxel import runlength as R

    n = ctx.params["n"]
    d = ctx.bools("d", n)
    # bool arrays are concretised by the real code where it indexes with them; every pattern is a path
    dd = np.array([bool(x) for x in _aslist(d)])
    br = R.dense_to_brle(dd, dtype=np.uint8)
    ctx.read("brle_to_dense(dense_to_brle(d)) = d", lambda: list(map(bool, R.brle_to_dense(br))), list(map(bool, dd)))
    ctx.concrete_equal("brle counts alternate starting with False", _dense_of_brle(br), list(map(bool, dd)))
    di = dd.astype(np.int64) * 3
    rl = R.dense_to_rle(di, dtype=np.uint8)
    ctx.read("rle_to_dense(dense_to_rle(d)) = d", lambda: list(map(int, R.rle_to_dense(rl))), list(map(int, di)))
    ctx.read("brle_to_sparse = nonzero positions", lambda: list(map(int, np.asarray(R.brle_to_sparse(br)).reshape(-1))), list(map(int, np.flatnonzero(dd))))

    def rts():
        ind, vals = R.rle_to_sparse(rl)
        return list(map(int, np.asarray(ind).reshape(-1))) if len(ind) else []

    ctx.read("rle_to_sparse indices", rts, list(map(int, np.flatnonzero(dd))))
    ctx.read("brle_reverse = reversed dense", lambda: list(map(bool, R.brle_to_dense(R.brle_reverse(br)))), list(map(bool, dd[::-1])))
    ctx.read("rle_reverse = reversed dense", lambda: list(map(int, R.rle_to_dense(R.rle_reverse(rl)))), list(map(int, di[::-1])))
    mask = np.array([bool(x) for x in _aslist(ctx.bools("m", n))])
    ctx.read("brle_mask = dense[mask]", lambda: list(map(bool, R.brle_mask(br, mask))), list(map(bool, dd[mask])))
    ctx.read("rle_mask = dense[mask]", lambda: list(map(int, R.rle_mask(rl, mask))), list(map(int, di[mask])))

    def bstrip():
        s_, (a, b) = R.brle_strip(br)
        sd = list(map(bool, R.brle_to_dense(s_)))
        return (sd, int(a) + len(sd) + int(b)) if dd.any() else (sd, len(dd))

    ctx.read("brle_strip = trimmed dense", bstrip, (list(map(bool, np.trim_zeros(dd.astype(int)).astype(bool))), len(dd)))
    ctx.read("brle_logical_not = ~dense", lambda: list(map(bool, R.brle_to_dense(R.brle_logical_not(br)))), list(map(bool, ~dd)))
    ctx.read("brle_length / rle_length", lambda: (int(R.brle_length(br)), int(R.rle_length(rl))), (len(dd), len(dd)))


def u_encoding_classes(ctx):
    """every Encoding answers its read API like the dense array it represents (each read is guarded separately)"""
    from trimesh.voxel import encoding as E
    from trimesh.voxel import runlength as R

    shape = ctx.params["shape"]
    n = int(np.prod(shape))
    d = np.array([bool(x) for x in _aslist(ctx.bools("d", n))]).reshape(shape)
    mk0 = np.array([bool(x) for x in _aslist(ctx.bools("m", n))])
    kind = ctx.params["kind"]
    flat = d.reshape(-1)
    if kind == "dense":
        enc = E.DenseEncoding(d)
    elif kind == "sparse":
        idx = np.column_stack(np.nonzero(d)) if d.any() else np.zeros((0, len(shape)), dtype=int)
        enc = E.SparseBinaryEncoding(idx, shape=shape)
    elif kind == "rle":
        enc = E.RunLengthEncoding(R.dense_to_rle(flat.astype(np.int64)), dtype=bool).reshape(shape)
    else:
        enc = E.BinaryRunLengthEncoding(R.dense_to_brle(flat)).reshape(shape)
    view = ctx.params["view"]
    ref = d
    if view == "flip":
        ax = ctx.params["axes"]
        enc = enc.flip(ax)
        ref = np.flip(ref, ax)
    elif view == "transpose":
        perm = ctx.params["perm"]
        enc = enc.transpose(perm)
        ref = ref.transpose(perm)
    elif view == "flat":
        enc = enc.flat
        ref = ref.reshape(-1)
    elif view == "reshape":
        enc = enc.reshape(ctx.params["newshape"])
        ref = ref.reshape(ctx.params["newshape"])
    elif view == "chain":  # lazy views stacked on lazy views: each step must compose with what is already there
        for op, arg in ctx.params["steps"]:
            if op == "transpose":
                enc, ref = enc.transpose(arg), ref.transpose(arg)
            elif op == "flip":
                enc, ref = enc.flip(arg), np.flip(ref, arg)
            else:
                enc, ref = enc.reshape(arg), ref.reshape(arg)
    mk = mk0.reshape(ref.shape)
    tag = "" if ref.any() else " (all-empty data)"
    ctx.read("dense", lambda: np.asarray(enc.dense).astype(bool).tolist(), ref.tolist())
    ctx.read("shape/size/ndims", lambda: (tuple(enc.shape), int(enc.size), int(enc.ndims)), (ref.shape, ref.size, ref.ndim))
    ctx.read("sum", lambda: int(enc.sum), int(ref.sum()))
    ctx.read("is_empty", lambda: bool(enc.is_empty), not ref.any())
    exp_idx = sorted(map(tuple, np.column_stack(np.nonzero(ref)).tolist())) if ref.any() else []
    ctx.read("sparse_indices (as a set)" + tag, lambda: sorted(map(tuple, np.asarray(enc.sparse_indices).reshape(-1, ref.ndim).tolist())), exp_idx)
    ctx.read("sparse_values" + tag, lambda: [bool(v) for v in np.asarray(enc.sparse_values).reshape(-1)], [True] * int(ref.sum()))
    allidx = np.array(list(np.ndindex(*ref.shape)))[::-1]
    allidx = np.concatenate([allidx, allidx[:1]])  # unsorted, with a repeat
    ctx.read("gather_nd", lambda: np.asarray(enc.gather_nd(allidx)).astype(bool).tolist(), ref[tuple(allidx.T)].tolist())
    ctx.read("mask", lambda: np.asarray(enc.mask(mk)).astype(bool).reshape(-1).tolist(), ref[mk].tolist())

    def strip():
        st, pad = enc.stripped
        std = np.asarray(st.dense).astype(bool)
        return np.pad(std, np.asarray(pad), mode="constant").tolist()

    if ref.any():
        ctx.read("stripped pads back to the original", strip, ref.tolist())
    else:
        ctx.read("stripped of empty data is empty", lambda: int(np.asarray(enc.stripped[0].dense).sum()), 0)


def u_voxelgrid(ctx):
    """points_to_indices / indices_to_points are mutually inverse; volume = filled * cell volume"""
    import trimesh
    from trimesh.voxel import base as VB

    from fractions import Fraction as Fr

    # scale from an exact catalogue, translation symbolic: keeps the rounding obligations in linear arithmetic
    s = [[Fr(1, 2), 2, Fr(3, 4)], [1, 1, 1], [Fr(5, 2), Fr(1, 8), 3]][ctx.params.get("scale", 0)]
    if not ctx.sym:
        s = [float(v) for v in s]
    t = ctx.reals("t", 3, -10, 10)
    fill = np.zeros((2, 2, 2), dtype=bool)
    pattern = ctx.params["pattern"]
    for i, bit in enumerate(pattern):
        fill[np.unravel_index(i, (2, 2, 2))] = bool(int(bit))
    from symx import lib

    T = np.zeros((4, 4), dtype=object)
    for i in range(3):
        T[i, i] = s[i]
        T[i, 3] = t[i]
    T[3, 3] = 1
    T = nparr.set_sd(nparr.wrap(T), np.float64) if ctx.sym else T.astype(float)
    vg = VB.VoxelGrid(fill, transform=T)
    idx = np.array(list(np.ndindex(2, 2, 2)))
    pts = vg.indices_to_points(idx)
    exp = [[s[j] * idx[i, j] + t[j] for j in range(3)] for i in range(len(idx))]
    ctx.eq("indices_to_points = T.index", pts, exp)
    back = vg.points_to_indices(pts)
    ctx.eq("points_to_indices(indices_to_points(i)) = i", back, idx)
    ctx.eq("volume = filled count * |det T|", vg.volume, int(fill.sum()) * s[0] * s[1] * s[2])
    ctx.concrete_equal("filled_count", int(vg.filled_count), int(fill.sum()))
    # a point anywhere strictly inside cell c maps to c (offset symbolic in (-0.5, 0.5))
    o = ctx.reals("o", 3, -0.49, 0.49)
    cell = np.array(ctx.params["cell"]) if not isinstance(ctx.params["cell"], int) else idx[ctx.params["cell"]]
    q = [[s[j] * (cell[j] + o[j]) + t[j] for j in range(3)]]
    q = nparr.set_sd(nparr.wrap(np.array(q, dtype=object)), np.float64) if ctx.sym else np.array(q, dtype=float)
    ctx.eq("every point strictly inside a cell maps to that cell", vg.points_to_indices(q), [cell.tolist()])
    inside = all(0 <= int(c) < 2 for c in cell)
    ctx.concrete_equal("is_filled of that point (False outside the grid)", bool(np.asarray(vg.is_filled(q)).reshape(-1)[0]), bool(fill[tuple(cell)]) if inside else False)


F = "trimesh.voxel.runlength."


def units(tier):
    T = tier == "thorough"
    us = []
    ks = (4, 5) if not T else (3, 4, 5, 6)
    for k in ks:
        us.append(Unit("merge_brle-k%d" % k, u_merge_brle, params={"k": k}, key="merge_brle", functions=[F + "merge_brle_lengths"], bounds="%d runs, counts any non-negative integer" % k, max_paths=500))
        us.append(Unit("reverse-k%d" % k, u_reverse, params={"k": k}, key="reverse", functions=[F + "brle_reverse", F + "rle_reverse"], bounds="%d runs, counts any non-negative integer" % k, max_paths=500))
        us.append(Unit("logical_not-k%d" % k, u_logical_not, params={"k": k}, key="logical_not", functions=[F + "brle_logical_not", F + "brle_length"], bounds="%d runs, any counts" % k, max_paths=500))
        us.append(Unit("brle_strip-k%d" % k, u_strip, params={"k": k}, key="brle_strip", functions=[F + "brle_strip"], bounds="%d runs, any counts" % k, max_paths=800))
        us.append(Unit("brle_rle-k%d" % (k - 1), u_brle_rle, params={"k": k - 1}, key="brle_rle", functions=[F + "brle_to_rle", F + "rle_to_brle", F + "rle_to_rle"], bounds="%d runs, counts <= 2^40" % (k - 1), max_paths=3000, raises=(ValueError,)))
    for k in ((2, 3) if not T else (3, 4)):
        us.append(Unit("merge_rle-k%d" % k, u_merge_rle, params={"k": k}, key="merge_rle", functions=[F + "merge_rle_lengths"], bounds="%d runs, values 0..2, any counts" % k, max_paths=800))
        us.append(Unit("rle_strip-k%d" % k, u_rle_strip, params={"k": k}, key="rle_strip", functions=[F + "rle_strip", F + "rle_length"], bounds="%d runs, values 0..2, any counts" % k, max_paths=1500))
        for dt in (("uint8",) if not T else ("uint8", "uint16")):
            us.append(Unit("split_brle-k%d-%s" % (k, dt), u_split_brle, params={"k": k, "dtype": dt}, key="split_brle", functions=[F + "split_long_brle_lengths"], bounds="%d runs, counts <= 3*max(%s)+7 (repeat counts concretised)" % (k, dt), max_paths=1500, wall_s=300))
            us.append(Unit("brle_to_brle-k%d-%s" % (k, dt), u_brle_to_brle, params={"k": k, "dtype": dt}, key="brle_to_brle", functions=[F + "brle_to_brle"], bounds="%d runs, counts <= 2*max+3" % k, max_paths=1500, wall_s=300))
            if k == 3 and not T:
                continue
            us.append(Unit("split_rle-k%d-%s" % (k, dt), u_split_rle, params={"k": k, "dtype": dt}, key="split_rle", functions=[F + "split_long_rle_lengths"], bounds="%d runs, counts <= 2*max+3" % k, max_paths=4000, wall_s=300))
            us.append(Unit("rle_to_rle-k%d-%s" % (k, dt), u_rle_to_rle, params={"k": k, "dtype": dt}, key="rle_to_rle", functions=[F + "rle_to_rle"], bounds="%d runs, values 0..2, counts <= 2*max+3" % k, max_paths=8000, wall_s=400))
    for srt in (True, False):
        us.append(Unit("gather-sorted%d" % srt, u_gather, params={"k": 3, "n": 2 if not T else 3, "sorted": srt}, key="gather", functions=[F + "sorted_brle_gather_1d", F + "sorted_rle_gather_1d", F + "brle_gather_1d", F + "rle_gather_1d"],
                       bounds="3 runs with any counts, 2-3 indices of any magnitude below the length", max_paths=3000, wall_s=300))
    us.append(Unit("dense_roundtrip", u_dense_roundtrip, params={"n": 5 if not T else 6}, functions=[F + x for x in ("dense_to_brle", "brle_to_dense", "dense_to_rle", "rle_to_dense", "brle_to_sparse", "rle_to_sparse", "brle_mask", "rle_mask")],
                   bounds="every bool array of length 5 (quick) / 6 x every mask (solver-driven forks over the bits)", max_paths=5000, wall_s=400))
    E = "trimesh.voxel.encoding."
    views = [("none", {}), ("flip", {"axes": (0,)}), ("flip", {"axes": (0, 1)}), ("transpose", {"perm": (1, 0, 2)}), ("transpose", {"perm": (2, 0, 1)}), ("flat", {}), ("reshape", {"newshape": (1, 4, 1)})]
    chains = {"t021-t102": [("transpose", (0, 2, 1)), ("transpose", (1, 0, 2))], "t201-t102": [("transpose", (2, 0, 1)), ("transpose", (1, 0, 2))],
              "t102-f0-t201": [("transpose", (1, 0, 2)), ("flip", (0,)), ("transpose", (2, 0, 1))], "f1-t120-f02": [("flip", (1,)), ("transpose", (1, 2, 0)), ("flip", (0, 2))],
              "t021-r41-t10": [("transpose", (0, 2, 1)), ("reshape", (4, 1)), ("transpose", (1, 0))]}
    views += [("chain", {"steps": st, "ctag": ct}) for ct, st in chains.items()]
    for kind in ("dense", "sparse", "rle", "brle"):
        for vname, vp in views:  # all views in both tiers (the cyclic transpose and the flat view exposed two defects that the first four views cannot show)
            p = {"shape": (2, 2, 1), "kind": kind, "view": vname}
            p.update(vp)
            vtag = vname + (vp["ctag"] if "ctag" in vp else "".join(map(str, vp.get("axes", vp.get("perm", vp.get("newshape", ""))))))
            us.append(Unit("encoding-%s-%s" % (kind, vtag), u_encoding_classes, params=p, key="encoding/%s/%s" % (kind, vtag), functions=[E + "DenseEncoding", E + "SparseBinaryEncoding", E + "RunLengthEncoding", E + "BinaryRunLengthEncoding", E + "FlippedEncoding", E + "TransposedEncoding", E + "FlattenedEncoding", E + "ShapedEncoding"],
                           bounds="every 2x2x1 bool voxel array x every mask of that shape", max_paths=600, wall_s=300))
    cells = [("10010110", 3, 0), ("00000001", 7, 2), ("11111111", (-1, 0, -2), 0), ("10010110", (2, -1, 1), 2)]
    if T:
        cells += [("11111111", 0, 1), ("01100000", 5, 0), ("10010110", 6, 2), ("11111111", (-3, -1, -1), 1), ("11111111", (0, 0, 2), 0)]
    for pat, cell, sc in cells:
        us.append(Unit("voxelgrid-%s-cell%s-scale%d" % (pat, cell if isinstance(cell, int) else "".join("%+d" % c for c in cell), sc), u_voxelgrid, params={"pattern": pat, "cell": cell, "scale": sc}, key="voxelgrid", functions=["trimesh.voxel.base.VoxelGrid.points_to_indices", "VoxelGrid.indices_to_points", "VoxelGrid.is_filled", "VoxelGrid.volume", "trimesh.voxel.transforms.Transform"],
                       bounds="2x2x2 grid, fill pattern %s, anisotropic scale from a rational catalogue, every translation |t|<=10, every point offset in (-0.49,0.49)^3 of cell %s (cells outside the grid, incl. negative indices, must map to their own index and read as not filled)" % (pat, cell), subspace="scale catalogue x symbolic translation x symbolic in-cell offset", wall_s=300))
    return us
