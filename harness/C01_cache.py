"""C01 -- derived mesh values never go stale (the cache is history independent)."""
import numpy as np

from symx import lib, nparr
from symx.lib import l_and, l_not, l_or
from symx.harness import Unit

META = {
    "level": "other",
    "explanation": "Inductive step over the real Trimesh cache: a real mesh is put into a state where a chosen set of derived values has been read (so the cache holds exactly what a fresh mesh computes), "
    "ONE mutator runs with symbolic arguments (matrix parameters, edited coordinate), and every derived value is then compared with the value of a mesh freshly built from the resulting arrays - "
    "numeric keys by z3 for all parameter values, topological keys concretely per path. Because the post-state again equals a fresh mesh's, histories of any length are covered; the bound is the mesh.",
    "assumptions": [
        "meshes: catalogue tetrahedron / open two-triangle strip with exact rational coordinates (vertex edits and matrices symbolic)",
        "matrix families as in C04 (translation, diag scale with mirrors, shear, scaled catalogue rotation); near-identity matrices with |M3 - I| <= 1e-6 are excluded: apply_transform documents them as 'no rotation' "
        "(has_rotation uses atol=1e-6) and keeps cached normals, which may then differ from fresh ones by up to ~1e-6 - a stated tolerance of the library, not a stale value",
        "keys compared: triangles, triangles_cross, triangles_center, area, area_faces, bounds, extents, centroid, volume, center_mass, face_normals, edges, edges_sorted, edges_unique, edges_face, "
        "face_adjacency, face_adjacency_edges, euler_number, is_watertight, is_winding_consistent; vertex_normals (angle weights), ray / nearest / kd-tree / convex hull / principal axes are not encodable and not claimed",
    ],
}

TET_V = [(0, 0, 0), (4, 0, 1), (1, 5, 0), (2, 1, 6)]
TET_F = [[0, 2, 1], [0, 1, 3], [1, 2, 3], [0, 3, 2]]
STRIP_V = [(0, 0, 0), (3, 0, 1), (0, 4, 0), (3, 5, 2), (-1, -1, 7)]  # last vertex unreferenced
STRIP_F = [[0, 1, 2], [2, 1, 3]]

NUMERIC = ["triangles", "triangles_cross", "triangles_center", "area", "area_faces", "bounds", "extents", "centroid", "volume", "face_normals"]
TOPO = ["edges", "edges_sorted", "edges_unique", "edges_face", "face_adjacency", "face_adjacency_edges", "euler_number", "is_watertight", "is_winding_consistent"]


def _mesh(ctx, which):
    import trimesh

    V, F = (TET_V, TET_F) if which == "tet" else (STRIP_V, STRIP_F)
    Va = np.array(V, dtype=object)
    Va = nparr.set_sd(nparr.wrap(Va), np.float64) if ctx.sym else np.array([[float(x) for x in r] for r in Va])
    return trimesh.Trimesh(vertices=Va, faces=np.array(F), process=False)


def _fresh(ctx, m):
    import trimesh

    v = m.vertices
    v = nparr.set_sd(nparr.wrap(np.array(nparr.base(v), dtype=object).copy()), np.float64) if ctx.sym else np.array(v, dtype=float).copy()
    return trimesh.Trimesh(vertices=v, faces=np.array(m.faces).copy(), process=False)


def _read(m, keys):
    for k in keys:
        getattr(m, k)


def _compare(ctx, m, tag, extra=()):
    f = _fresh(ctx, m)
    if extra:
        f.density = m.density
    for k in list(NUMERIC) + list(extra):
        got = getattr(m, k)
        exp = getattr(f, k)
        if k == "face_angles":
            got, exp = _cs(ctx, got), _cs(ctx, exp)
        ctx.eq("%s: %s equals the fresh mesh's" % (tag, k), got, exp)
    for k in TOPO:
        got = getattr(m, k)
        exp = getattr(f, k)
        ctx.concrete_equal("%s: %s equals the fresh mesh's" % (tag, k), np.asarray(got).tolist(), np.asarray(exp).tolist())
    ctx.note("cache keys after: %s" % sorted(m._cache.cache.keys()))


def _cs(ctx, a):
    """angles as (cos, sin) pairs: exact terms in the symbolic run"""
    if not ctx.sym:
        a = np.asarray(a, dtype=float)
        return np.stack([np.cos(a), np.sin(a)], axis=-1)
    flat = np.asarray(nparr.base(a), dtype=object).reshape(-1)
    return np.array([[x.c, x.s] if hasattr(x, "c") else [np.cos(float(x)), np.sin(float(x))] for x in flat], dtype=object)


def u_mirror(ctx):
    """rigid mirror + symbolic translation after reading per-corner values (face_angles)"""
    m = _mesh(ctx, ctx.params["mesh"])
    _read(m, ctx.params["read"])
    M = np.eye(4, dtype=object)
    ax = ctx.choice("axis", 3)
    M[ax, ax] = -1
    # (a symbolic translation on top makes the sqrt/arccos chains of face_angles undecidable in time: the mirror plane is the solver's choice, the offset a catalogue constant)
    for i in range(3):
        M[i, 3] = [3, -2, 5][i]
    Mreal = nparr.set_sd(nparr.wrap(M.copy()), np.float64) if ctx.sym else M.astype(np.float64)
    m.apply_transform(Mreal)
    _compare(ctx, m, "after apply_transform(mirror), read before: %s" % ",".join(ctx.params["read"]), extra=("face_angles",))


def u_transform(ctx):
    import importlib.util
    import os
    import sys

    if "harness_C04" not in sys.modules:
        spec = importlib.util.spec_from_file_location("harness_C04", os.path.join(os.path.dirname(os.path.abspath(__file__)), "C04_transforms.py"))
        mod = importlib.util.module_from_spec(spec)
        sys.modules["harness_C04"] = mod
        spec.loader.exec_module(mod)
    C04 = sys.modules["harness_C04"]
    m = _mesh(ctx, ctx.params["mesh"])
    C04._stub(ctx)
    _read(m, ctx.params["read"])
    Mreal, M, Mi, det = C04._matrix(ctx, ctx.params["kind"])
    m.apply_transform(Mreal)
    _compare(ctx, m, "after apply_transform(%s), read before: %s" % (ctx.params["kind"], ",".join(ctx.params["read"]) or "nothing"))


def u_edit(ctx):
    """in-place edit / reassignment of the arrays"""
    m = _mesh(ctx, ctx.params["mesh"])
    _read(m, ctx.params["read"])
    x = ctx.real("x", -50, 50)
    how = ctx.params["how"]
    if how == "setitem":
        m.vertices[1, 2] = x
    elif how == "iadd":
        m.vertices[:, 0] += x
    elif how == "reassign":
        v = np.array(nparr.base(m.vertices) if ctx.sym else m.vertices, dtype=object if ctx.sym else float).copy()
        v[2, 1] = x
        m.vertices = nparr.set_sd(nparr.wrap(v), np.float64) if ctx.sym else v
    elif how == "reassign-hashed":
        # the new array comes from another mesh and has already been hashed there
        o = _mesh(ctx, ctx.params["mesh"])
        o.vertices[2, 1] = x
        _read(o, NUMERIC + TOPO)
        m.vertices = o.vertices
    elif how == "density":
        m.mass, m.moment_inertia, m.center_mass
        m.density = ctx.real("rho", 0.5, 20)
        _compare(ctx, m, "after setting density", extra=("mass", "center_mass", "moment_inertia"))
        return
    elif how == "faces":
        f = np.array(m.faces).copy()
        f[0] = f[0][::-1]
        m.faces = f
        m.vertices[0, 0] = x
    _compare(ctx, m, "after %s, read before: %s" % (how, ",".join(ctx.params["read"]) or "nothing"))


def u_struct(ctx):
    """structural mutators (concrete arguments, every cached value re-checked)"""
    m = _mesh(ctx, ctx.params["mesh"])
    _read(m, ctx.params["read"])
    x = ctx.real("x", -50, 50)
    op = ctx.params["op"]
    if op == "invert":
        m.invert()
    elif op == "update_faces":
        mask = np.ones(len(m.faces), dtype=bool)
        mask[0] = False
        m.update_faces(mask)
    elif op == "update_vertices":
        mask = np.ones(len(m.vertices), dtype=bool)
        mask[-1] = False
        if ctx.params["mesh"] == "tet":
            m.update_faces(np.array([True, False, False, False]))
        m.update_vertices(mask)
    elif op == "remove_unreferenced":
        m.remove_unreferenced_vertices()
    elif op == "copy":
        m = m.copy(include_cache=True)
    elif op == "edit+copy":
        # the source cache is stale at the moment of copying
        m.vertices[1, 0] = ctx.real("y", -50, 50)
        m = m.copy(include_cache=True)
    _compare(ctx, m, "after %s, read before: %s" % (op, ",".join(ctx.params["read"]) or "nothing"))
    m.vertices[0, 1] = x  # and one symbolic edit afterwards: nothing may survive it wrongly
    _compare(ctx, m, "after %s + edit, read before: %s" % (op, ",".join(ctx.params["read"]) or "nothing"))


F = "trimesh."
FUN = [F + "base.Trimesh.apply_transform", F + "base.Trimesh.invert", F + "base.Trimesh.update_faces", F + "base.Trimesh.update_vertices", F + "base.Trimesh.remove_unreferenced_vertices", F + "base.Trimesh.copy",
       F + "caching.Cache", F + "caching.cache_decorator", F + "caching.DataStore", F + "caching.TrackedArray", F + "base.Trimesh.face_normals", F + "geometry.faces_to_edges", F + "graph.face_adjacency", F + "triangles.*"]


def units(tier):
    T = tier == "thorough"
    us = []
    reads = [(), tuple(NUMERIC + TOPO), ("face_normals",), tuple(TOPO)]
    for mesh in (("tet",) if not T else ("tet", "strip")):
        for kind in (["translate", "scale", "shear", "sim1"] + (["sim4"] if T else [])):
            for rd in (reads if kind in ("scale", "shear") or T else reads[:2]):
                us.append(Unit("transform-%s-%s-read%d" % (mesh, kind, reads.index(rd)), u_transform, params={"mesh": mesh, "kind": kind, "read": rd, "similar_or_far": True}, key="transform/%s/read%d" % (kind, reads.index(rd)), functions=FUN,
                               bounds="catalogue %s x matrix family '%s' (all parameter values); values read before: %s" % (mesh, kind, {0: "none", 1: "all", 2: "face_normals only", 3: "topology only"}[reads.index(rd)]),
                               max_paths=100, wall_s=300, ob_ms=30000, feas_ms=800, group=False))
    if T:
      us.append(Unit("mirror-strip-angles", u_mirror, tiers=("thorough",), params={"mesh": "strip", "axis": 0, "read": ("face_angles",) + tuple(NUMERIC + TOPO)}, key="mirror/angles", functions=FUN + [F + "triangles.angles"],
                   bounds="catalogue strip, x -> mirror_axis(x) + (3,-2,5) for each coordinate mirror, per-corner face_angles read before", max_paths=50, wall_s=400, ob_ms=30000, feas_ms=800, group=False))
    for mesh in ("tet", "strip"):
        for how in ("setitem", "iadd", "reassign", "faces", "reassign-hashed") + (("density",) if mesh == "tet" else ()):
            for rd in (reads[1],) if not T else reads[:2]:
                us.append(Unit("edit-%s-%s-read%d" % (mesh, how, reads.index(rd)), u_edit, params={"mesh": mesh, "how": how, "read": rd}, key="edit/%s" % how, functions=FUN,
                               bounds="catalogue %s, edit '%s' with a symbolic value" % (mesh, how), max_paths=100, wall_s=200, ob_ms=30000, feas_ms=800, group=False))
        for op in ("invert", "update_faces", "update_vertices", "remove_unreferenced", "copy") + (("edit+copy",) if mesh == "strip" else ()):  # two symbolic edits on the tetrahedron do not finish
            us.append(Unit("struct-%s-%s" % (mesh, op), u_struct, params={"mesh": mesh, "op": op, "read": reads[1]}, key="struct/%s" % op, functions=FUN,
                           bounds="catalogue %s, mutator '%s' after reading everything, then a symbolic vertex edit" % (mesh, op), max_paths=100, wall_s=200, ob_ms=30000, feas_ms=800, group=False))
    return us
