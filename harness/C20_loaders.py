"""C20 -- loading arbitrary bytes terminates cleanly (control skeletons of the binary loaders)."""
import io
import struct

import numpy as np

from symx import core, lib, nparr
from symx.core import Sym
from symx.harness import Unit as _Unit


def Unit(*a, **k):
    k.setdefault("group", False)
    k.setdefault("feas_ms", 2000)
    k.setdefault("ob_ms", 20000)
    k.setdefault("shim", False)
    return _Unit(*a, **k)


META = {
    "level": "other",
    "explanation": "The real loader functions (exchange.stl.load_stl_binary, exchange.gltf.load_glb's chunk loop) run against a STUB ENVIRONMENT: the file is a stream of symbolic length L whose read/tell/seek return "
    "symbolic positions, np.frombuffer of a header returns SYMBOLIC 32-bit words (z3 Ints with numpy's modulo-2^32 wrap-around on uint32 arithmetic), and every allocation the code requests (np.arange / frombuffer / read) is "
    "recorded as a term. z3 decides over all header words and all lengths in the bound that every requested allocation is <= 64*L + 4096 bytes, that the chunk loop makes progress (iterations <= L/8 + 1) and that every "
    "exit is a return or an Exception. Counterexamples are turned into real bytes and replayed on the unmodified loader with real numpy (np.arange wrapped only to record the request instead of touching 16 GiB).",
    "assumptions": [
        "file length L <= 84 + 50*3 (STL) / <= 20 + 8*k (GLB, k = 2 quick / 4 thorough chunk headers) bytes; header words: ANY 32-bit values; payload bytes irrelevant to the control skeleton (zeros in replays)",
        "stubs: stream read(n) returns min(n, remaining) bytes; np.frombuffer requires a multiple of the item size (numpy's contract); json.loads of the GLB JSON chunk returns a header without buffers / any dict (stub)",
        "text parsers (OBJ/OFF/PLY-ascii/STL-ascii/DXF/SVG/XYZ), zip / json / xml payloads, interpreter-level crashes, wall-clock and RSS limits are not encodable here and not claimed",
    ],
}

U32 = 1 << 32
BOUND_MUL, BOUND_ADD = 64, 4096


def _int_shim(x, *a):
    """`int` as seen by the loader module (module global): int(<symbolic uint32>) keeps the term (python's own int() would demand an exact int)"""
    if isinstance(x, U32Arr):
        return x.v if isinstance(x.v, Sym) else int(x.v)
    if isinstance(x, Sym):
        return x
    return int(x, *a)


class Requests:
    def __init__(self):
        self.items = []  # (label, bytes term)
        self.iterations = 0
        self.header_positions = []  # stream position of every chunk header read (a repeated position = the loop is stuck: same bytes, same decisions)


class SymInt(int):
    """what int(<symbolic uint32>) returns: python insists on an int instance, the term travels along in .sym (only the stream stub looks at it)"""

    sym = None

    def __mul__(self, o):
        return self.sym * (o.sym if isinstance(o, SymInt) else o)

    __rmul__ = __mul__

    def __add__(self, o):
        return self.sym + (o.sym if isinstance(o, SymInt) else o)

    __radd__ = __add__

    def __sub__(self, o):
        return self.sym - (o.sym if isinstance(o, SymInt) else o)

    def __eq__(self, o):
        return self.sym == (o.sym if isinstance(o, SymInt) else o)

    def __ne__(self, o):
        return self.sym != (o.sym if isinstance(o, SymInt) else o)

    def __lt__(self, o):
        return self.sym < (o.sym if isinstance(o, SymInt) else o)

    def __gt__(self, o):
        return self.sym > (o.sym if isinstance(o, SymInt) else o)

    def __le__(self, o):
        return self.sym <= (o.sym if isinstance(o, SymInt) else o)

    def __ge__(self, o):
        return self.sym >= (o.sym if isinstance(o, SymInt) else o)

    def __hash__(self):
        return 0


class U32Arr:
    """uint32 array of one element / uint32 scalar holding a symbolic Int v in [0, 2^32) with numpy's wrap-around"""

    def __init__(self, v, scalar=False):
        self.v, self.scalar = v, scalar

    def _wrap(self, t):
        return U32Arr(t % U32 if isinstance(t, Sym) else int(t) % U32, self.scalar)

    def __mul__(self, o):
        if isinstance(o, (int, np.integer)) and 0 <= int(o) < U32:
            return self._wrap(self.v * int(o))
        raise core.NotEncodable("uint32 * %r" % type(o))

    __rmul__ = __mul__

    def __getitem__(self, i):
        if self.scalar:
            raise IndexError("scalar")
        return U32Arr(self.v, True)

    def __int__(self):
        if not isinstance(self.v, Sym):
            return int(self.v)
        r = SymInt(0)
        r.sym = self.v
        return r

    def __index__(self):
        return self.__int__()

    def _cmp(self, o, op):
        ov = o.v if isinstance(o, U32Arr) else o
        return op(self.v, ov)  # numpy compares a python int with uint32 values exactly (NEP 50): mathematical comparison

    def __eq__(self, o):
        return self._cmp(o, lambda a, b: a == b)

    def __ne__(self, o):
        return self._cmp(o, lambda a, b: a != b)

    def __lt__(self, o):
        return self._cmp(o, lambda a, b: a < b)

    def __gt__(self, o):
        return self._cmp(o, lambda a, b: a > b)

    def __hash__(self):
        return 0

    def __format__(self, spec):
        return "<u32>"

    def __repr__(self):
        return "<u32>"


_FRESH = [0]


class SymBytes:
    """bytes of symbolic length and ARBITRARY content: any comparison of (a part of) the content with a constant is a fresh Bool"""

    def __init__(self, n, start=0):
        self.n, self.start = n, start

    def lstrip(self, *a):
        return SymBytes(None)

    strip = rstrip = lower = upper = lstrip

    def __getitem__(self, k):
        if isinstance(k, slice):
            return SymBytes(None)
        raise core.NotEncodable("indexing symbolic bytes")

    def _content_test(self):
        _FRESH[0] += 1
        if core.ENGINE is None:
            return False
        return core.SymBool(core.z3.Bool("content_test_%d" % _FRESH[0]))

    def __eq__(self, o):
        return self._content_test()

    def __ne__(self, o):
        r = self._content_test()
        return (not r) if isinstance(r, bool) else ~r

    def startswith(self, *a):
        return self._content_test()

    __hash__ = None

    def __len__(self):
        return int(self.n) if not isinstance(self.n, Sym) else core.ENGINE.concretize(self.n.t, what="len(bytes)")

    def __bytes__(self):
        return b""

    def decode(self, *a, **k):
        return "{}"


class SymFile:
    """stream of symbolic length L"""

    def __init__(self, L, req, max_reads=64):
        self.L, self.pos, self.req, self.closed = L, 0, req, False
        self.reads, self.max_reads = 0, max_reads

    def read(self, n=None):
        self.reads += 1
        if self.reads > self.max_reads:
            raise AssertionError("unwinding bound exceeded: %d reads of a stream of at most a few dozen bytes" % self.reads)
        rest = self.L - self.pos
        if bool(rest < 0):
            rest = 0  # position beyond the end (after a seek): nothing left to read
        if n is None or (isinstance(n, int) and n < 0):
            k = rest
        else:
            if isinstance(n, U32Arr):
                n = n.v
            if isinstance(n, SymInt):
                n = n.sym
            k = n if bool(n <= rest) else rest
            self.req.items.append(("read(%s)" % ("n" if isinstance(n, Sym) else n), k))
        start = self.pos
        self.pos = self.pos + k
        return SymBytes(k, start)

    def tell(self):
        return self.pos

    def seek(self, off, whence=0):
        if isinstance(off, U32Arr):
            off = off.v
        if isinstance(off, SymInt):
            off = off.sym
        self.pos = off if whence == 0 else (self.L + off if whence == 2 else self.pos + off)
        return self.pos

    def close(self):
        self.closed = True


class CountingBytesIO(io.BytesIO):
    """real stream for the replay; a loader that keeps reading an exhausted stream is stopped (non-termination witness)"""

    reads = 0
    req = None

    def read(self, *a):
        self.reads += 1
        if self.req is not None and a and a[0] == 8 and self.reads > 1:
            self.req.header_positions.append(self.tell())
        if self.reads > 64:
            raise AssertionError("unwinding bound exceeded: %d reads" % self.reads)
        return io.BytesIO.read(self, *a)


class Field:
    def __init__(self, n, per):
        self.n, self.per = n, per

    def __len__(self):
        return int(self.n) if not isinstance(self.n, Sym) else core.ENGINE.concretize(self.n.t, what="len(field)")

    def reshape(self, *a):
        return self


class Blob:
    def __init__(self, n):
        self.n = n

    def __getitem__(self, k):
        return Field(self.n, 0)

    def __len__(self):
        return int(self.n) if not isinstance(self.n, Sym) else core.ENGINE.concretize(self.n.t, what="len(blob)")


class Header:
    def __init__(self, words):
        self.words = words

    def __getitem__(self, k):
        if k == "face_count":
            return U32Arr(self.words[0])
        if k == "header":
            return [SymBytes(80)]
        if isinstance(k, int):
            return U32Arr(self.words[k], True)
        if isinstance(k, slice):
            return [U32Arr(w, True) for w in self.words[k]]
        raise KeyError(k)

    def __iter__(self):
        return iter([U32Arr(w, True) for w in self.words])


class Arr:
    def __init__(self, n):
        self.n = n

    def reshape(self, shape):
        if bool(self.n % 3 != 0):
            raise ValueError("cannot reshape array into shape (-1, 3)")
        return self


class NPStub:
    """numpy as seen by the loader: frombuffer / arange are modelled, everything else is the real module"""

    def __init__(self, ctx, req, words):
        self.ctx, self.req, self.words = ctx, req, words

    def __getattr__(self, k):
        return getattr(np, k)

    def frombuffer(self, data, dtype=None, count=-1, offset=0):
        dt = np.dtype(dtype)
        n = data.n
        if dt.names and "face_count" in dt.names:
            return Header(self.words("h", 1))
        if dt == np.dtype("<u4"):
            k = len(data)  # concretised: 20 or 8 bytes by the time we are here
            if k % 4:
                raise ValueError("buffer size must be a multiple of element size")
            return Header(self.words("w", k // 4, data.start))
        if bool(n % dt.itemsize != 0):
            raise ValueError("buffer size must be a multiple of element size")
        m = n // dt.itemsize if isinstance(n, int) else Sym(n.t / dt.itemsize)
        self.req.items.append(("frombuffer(%s)" % dt.itemsize, n))
        return Blob(m)

    def arange(self, n, *a, **k):
        v = n.v if isinstance(n, U32Arr) else (n.sym if isinstance(n, SymInt) else n)
        self.req.items.append(("arange", v * 8))
        return Arr(v)


class Recorder:
    """real numpy, np.arange recorded (and refused when huge) - used in the concrete replay of the real loader"""

    def __init__(self, req):
        self.req = req

    def __getattr__(self, k):
        return getattr(np, k)

    def arange(self, n, *a, **k):
        self.req.items.append(("arange", int(n) * 8))
        if int(n) * 8 > (1 << 27):
            raise MemoryError("Unable to allocate %d bytes" % (int(n) * 8))
        return np.arange(n, *a, **k)


def _from_stub(e):
    """an AttributeError / TypeError raised because a stub object lacks an operation is a gap of the model, not a clean failure of the loader"""
    import traceback

    if not isinstance(e, (AttributeError, TypeError, NotImplementedError)):
        return False
    txt = str(e)
    if any(k in txt for k in ("SymBytes", "U32Arr", "SymInt", "SymFile", "Header", "Blob", "Field", "NPStub", "Sym'", "SymBool")):
        return True
    tb = traceback.extract_tb(e.__traceback__)
    return bool(tb) and tb[-1].filename.endswith("C20_loaders.py")


def _finish(ctx, req, L, outcome):
    ctx.concrete_equal("the loader returns or raises an Exception within the unwinding bound", outcome[0] if outcome[0] not in ("return", "Exception") else "ok", "ok")
    for label, b in req.items:
        ctx.true("allocation request `%s` <= %d*L + %d bytes" % (label, BOUND_MUL, BOUND_ADD), b <= BOUND_MUL * L + BOUND_ADD)


def u_stl(ctx):
    import warnings

    from trimesh.exchange import stl

    L = ctx.int("L", 0, 84 + 150)
    count = ctx.int("face_count", 0, U32 - 1)
    req = Requests()
    saved = stl.np
    try:
        if ctx.sym:
            words = lambda tag, k, start=0: [count]
            stl.np = NPStub(ctx, req, words)
            stl.int = _int_shim
            f = SymFile(L, req)
        else:
            L, count = int(L), int(count)
            body = b"\0" * 80 + struct.pack("<I", count)
            data = (body + b"\0" * max(0, L - 84))[:L] if L >= 84 else body[:L]
            stl.np = Recorder(req)
            f = io.BytesIO(data)
        try:
            with warnings.catch_warnings():
                warnings.simplefilter("ignore")
                stl.load_stl_binary(f)
            outcome = ("return",)
        except (core.Abort, core.NotEncodable, core.PathException):
            raise
        except MemoryError:
            outcome = ("Exception",)
        except Exception as e:
            if ctx.sym and _from_stub(e):
                raise core.NotEncodable("stub does not model: %s" % e)
            outcome = ("Exception",)
    finally:
        stl.np = saved
        stl.__dict__.pop("int", None)
    _finish(ctx, req, L, outcome)


def u_glb(ctx):
    """header + chunk loop of load_glb up to the hand-over to _read_buffers (stubbed).
    The file CONTENT is symbolic byte by byte (b0 .. b_{Lmax-1}), so that re-reading a position after a seek sees the same bytes."""
    import json
    import warnings

    import z3

    from trimesh.exchange import gltf

    nchunks = ctx.params.get("chunks", 3)
    Lmax = 20 + 8 * nchunks  # at most `nchunks` complete chunk headers fit: one more read comes back short and ends the loop
    L = ctx.int("L", 0, Lmax)
    B = [ctx.int("b%02d" % k, 0, 255) for k in range(Lmax)]

    def sel(q):
        if not isinstance(q, Sym):
            return B[int(q)] if 0 <= int(q) < Lmax else 0
        r = z3.IntVal(0)
        for k in reversed(range(Lmax)):
            r = z3.If(q.t == k, core._term(B[k]), r)
        return Sym(r)

    def word_at(p):
        return sel(p) + sel(p + 1) * 256 + sel(p + 2) * 65536 + sel(p + 3) * 16777216

    req = Requests()
    saved = (gltf.np, gltf._read_buffers, gltf.json)
    reads = {"n": 0}
    try:
        if ctx.sym:
            # the json.loads stub stands for a JSON chunk that parses: "{}" padded with blanks, 2..16 bytes long
            jl = word_at(12)
            if ctx.pins is None:  # (pinned translator-validation runs use sampled bytes: nothing to assume there)
                ctx.assume(lib.l_and(jl >= 2, jl <= 16))
                for k in range(20, min(Lmax, 36)):
                    want = 0x7B if k == 20 else (0x7D if k == 21 else 0x20)
                    ctx.assume(lib.l_or(jl <= k - 20, B[k] == want))

            def words(tag, k, start=0):
                if k == 2:
                    reads["n"] += 1
                    req.iterations = reads["n"]
                    req.header_positions.append(start)
                    if reads["n"] > nchunks + 1:
                        raise AssertionError("unwinding bound exceeded: more chunk headers read than fit into the file")
                return [word_at(start + 4 * i) for i in range(k)]

            gltf.np = NPStub(ctx, req, words)

            class J:
                @staticmethod
                def loads(s):
                    return {}

                def __getattr__(self, k):
                    return getattr(json, k)

            gltf.json = J()
            gltf.int = _int_shim
            f = SymFile(L, req)
        else:
            L = int(L)
            data = bytes(int(b) & 255 for b in B[:L])
            orig_frombuffer = np.frombuffer

            class R(Recorder):
                def frombuffer(self_, d, dtype=None, **k):
                    if np.dtype(dtype) == np.dtype("<u4") and len(d) == 8:
                        req.iterations += 1
                    return orig_frombuffer(d, dtype=dtype, **k)

            gltf.np = R(req)
            f = CountingBytesIO(data)
            f.req = req
        gltf._read_buffers = lambda **kw: {"stub": True}
        try:
            with warnings.catch_warnings():
                warnings.simplefilter("ignore")
                gltf.load_glb(f)
            outcome = ("return",)
        except (core.Abort, core.NotEncodable, core.PathException):
            raise
        except AssertionError as e:
            outcome = ("unwinding:%s" % e,)
        except Exception as e:
            if ctx.sym and _from_stub(e):
                raise core.NotEncodable("stub does not model: %s" % e)
            outcome = ("Exception",)
    finally:
        gltf.np, gltf._read_buffers, gltf.json = saved
        gltf.__dict__.pop("int", None)
    _finish(ctx, req, L, outcome)
    ctx.true("chunk loop iterations <= L/8 + 1 (every iteration consumes a chunk header)", req.iterations * 8 <= L + 8)
    hp = req.header_positions
    if ctx.sym:
        ctx.true("no chunk-header position is read twice (a repeat means the loop cannot terminate)", lib.l_and(*[hp[i] != hp[j] for i in range(len(hp)) for j in range(i + 1, len(hp))]) if len(hp) > 1 else True)
    else:
        ctx.true("no chunk-header position is read twice (a repeat means the loop cannot terminate)", len(set(int(x) for x in hp)) == len(hp))


F = "trimesh.exchange."
FUN = [F + "stl.load_stl_binary", F + "gltf.load_glb"]


def units(tier):
    T = tier == "thorough"
    return [
        Unit("stl-binary", u_stl, key="stl", functions=FUN, bounds="binary STL: file length L in [0, 234] (up to 3 triangles), face_count ANY 32-bit word", max_paths=600, wall_s=300),
        Unit("glb-chunks", u_glb, params={"chunks": 2 if not T else 4}, key="glb", functions=FUN, bounds="GLB: file length L <= %d, ALL header and chunk words arbitrary 32-bit values, unwinding bound %d chunk headers (checked by an unwinding assertion)" % (20 + 8 * (2 if not T else 4), (2 if not T else 4) + 1), max_paths=6000 if not T else 60000, wall_s=400 if not T else 2500),
    ]
