"""C15 -- created shapes and primitives are valid solids with analytic measures."""
from fractions import Fraction

import numpy as np

from symx import lib, nparr
from symx.harness import Unit as _Unit


def Unit(*a, **k):
    k.setdefault("group", False)
    k.setdefault("feas_ms", 1500)
    k.setdefault("ob_ms", 30000)
    return _Unit(*a, **k)


META = {
    "level": "other",
    "explanation": "The real creation functions run with SYMBOLIC radii / heights / extents and placement offset; the section count is a solver variable resolved by forking (each count makes the angle grid a set of "
    "constants, so every vertex is linear in the real parameters). Topology (watertight, consistently wound, Euler number) is exact per count; z3 decides - for all parameter values - that the signed volume is "
    "positive and equals the inscribed-prism formula evaluated on the same angle grid, that bounds are the analytic ones and that a primitive's mesh after a parameter edit equals a freshly built primitive's.",
    "assumptions": [
        "radii, heights, extents in [0.5, 4]; placement: none, translation, catalogue rotation + translation, mirror + translation",
        "section counts 3..6 (quick) / 3..12 (thorough); uv_sphere / capsule / torus at their smallest grids",
        "scalar primitive parameters (radius, height) pass through builtin float() and are therefore drawn from a catalogue by the solver (forked), Box extents and all transforms are symbolic",
        "extrude_polygon / sweep_polygon / triangulate_polygon / partial revolutions with caps (shapely + earcut) and icosphere volume (normalisation by irrational norms) not claimed",
    ],
}


def _as(ctx, a):
    a = np.array(a, dtype=object)
    return nparr.set_sd(nparr.wrap(a), np.float64) if ctx.sym else np.array(a.tolist(), dtype=float)


def _obj(ctx, a):
    return np.asarray(nparr.base(a) if ctx.sym and isinstance(a, np.ndarray) else a, dtype=object if ctx.sym else float)


def _c04():
    import importlib.util
    import os
    import sys

    if "harness_C04" not in sys.modules:
        spec = importlib.util.spec_from_file_location("harness_C04", os.path.join(os.path.dirname(os.path.abspath(__file__)), "C04_transforms.py"))
        mod = importlib.util.module_from_spec(spec)
        sys.modules["harness_C04"] = mod
        spec.loader.exec_module(mod)
    return sys.modules["harness_C04"]


def _placement(ctx):
    """(matrix or None, exact object matrix, det sign)"""
    kind = ctx.params.get("place", "none")
    if not ctx.unit.opts.get("no_proxy"):
        _c04()._stub(ctx)  # flips_winding's random triangles -> small rationals (contract: any non-degenerate triangles)
    if kind == "none":
        return None, np.eye(4, dtype=object), 1
    M = np.eye(4, dtype=object)
    if kind.startswith("rot"):
        R = np.array(lib.ROTATIONS[int(kind[3:])], dtype=object)
        for i in range(3):
            for j in range(3):
                M[i, j] = R[i][j]
    if kind == "mirror":
        M[0, 0] = -1
    if kind == "mirror-rot":
        R = np.array(lib.ROTATIONS[2], dtype=object)
        for i in range(3):
            for j in range(3):
                M[i, j] = R[i][j] * (-1 if j == 1 else 1)
    for i in range(3):
        # the x offset stays away from 0: apply_transform's documented identity shortcut (|M - I| < 1e-8) is not the subject here
        M[i, 3] = ctx.real("t%d" % i, 1 if i == 0 else -5, 5) if not ctx.params.get("concrete_t") else [Fraction(3, 2), -2, Fraction(1, 4)][i]
    return _as(ctx, M), M, (-1 if kind.startswith("mirror") else 1)


def _vol(ctx, V, F):
    V = _obj(ctx, V)
    tot = 0
    for f in F:
        a, b, c = V[int(f[0])], V[int(f[1])], V[int(f[2])]
        tot = tot + lib.dot3(a, lib.cross3(b, c))
    return tot / 6


def _grid(n):
    """the angle grid revolve() uses for a closed revolution with n sections, as exact rationals of the float values"""
    theta = np.linspace(0, np.pi * 2.0, n + 1)
    c, s = np.cos(theta)[:-1], np.sin(theta)[:-1]
    return [Fraction(float(x)) for x in c], [Fraction(float(x)) for x in s]


def _polygon_area(n):
    """area of the inscribed n-gon of the unit circle on revolve's grid (shoelace, exact)"""
    c, s = _grid(n)
    return sum(c[k] * s[(k + 1) % n] - c[(k + 1) % n] * s[k] for k in range(n)) / 2


def _solid_checks(ctx, m, tag, euler=2):
    ctx.concrete_equal(tag + ": watertight, consistently wound, Euler number", (bool(m.is_watertight), bool(m.is_winding_consistent), int(m.euler_number)), (True, True, euler))
    v = _vol(ctx, m.vertices, np.asarray(m.faces))
    ctx.true(tag + ": signed volume positive (outward winding)", v > 0)
    return v


def u_box(ctx):
    import trimesh

    e = [ctx.real("e%d" % i, 0.5, 4) for i in range(3)]
    Mr, M, sign = _placement(ctx)
    m = trimesh.creation.box(extents=_as(ctx, e), transform=Mr)
    v = _solid_checks(ctx, m, "box")
    ctx.eq("box: volume = product of extents", v, e[0] * e[1] * e[2])
    ctx.eq("box: mesh.volume", m.volume, e[0] * e[1] * e[2])
    corners = [[sx * e[0] / 2, sy * e[1] / 2, sz * e[2] / 2] for sx in (-1, 1) for sy in (-1, 1) for sz in (-1, 1)]
    placed = [lib.apply_h(M, c) for c in corners]
    got = _obj(ctx, m.vertices)
    ctx.concrete_equal("box: 8 vertices, 12 faces", (len(got), len(m.faces)), (8, 12))
    # every placed corner is a vertex (as a set): sum and sum of squares per axis agree and each vertex lies on the box surface
    for ax in range(3):
        ctx.eq("box: corner coordinates (sum, axis %d)" % ax, sum(r[ax] for r in got), sum(r[ax] for r in placed))
        ctx.eq("box: corner coordinates (sum of squares, axis %d)" % ax, sum(r[ax] * r[ax] for r in got), sum(r[ax] * r[ax] for r in placed))
    if ctx.params.get("place", "none") in ("none", "translate"):
        ctx.eq("box: bounds", m.bounds, [[M[i, 3] - e[i] / 2 for i in range(3)], [M[i, 3] + e[i] / 2 for i in range(3)]])
        ctx.eq("box: area", 2 * sum(x * x for x in [0]) + m.area, 2 * (e[0] * e[1] + e[1] * e[2] + e[0] * e[2]))
        mi = m.moment_inertia
        mass = e[0] * e[1] * e[2]
        ctx.eq("box: inertia tensor (about its centre)", mi, [[mass * (e[1] * e[1] + e[2] * e[2]) / 12, 0, 0], [0, mass * (e[0] * e[0] + e[2] * e[2]) / 12, 0], [0, 0, mass * (e[0] * e[0] + e[1] * e[1]) / 12]])


def u_revolved(ctx):
    import trimesh

    shape = ctx.params["shape"]
    lo, hi = ctx.params.get("sections", (3, 6))
    n = lo + ctx.choice("sections", hi - lo + 1)
    r = ctx.real("r", 0.5, 4)
    h = ctx.real("h", 0.5, 4)
    Mr, M, sign = _placement(ctx)
    A = _polygon_area(n)
    if shape == "cylinder":
        m = trimesh.creation.cylinder(radius=r, height=h, sections=n, transform=Mr)
        vol = A * r * r * h
    elif shape == "cone":
        m = trimesh.creation.cone(radius=r, height=h, sections=n, transform=Mr)
        vol = A * r * r * h / 3
    elif shape == "annulus":
        r2 = r + ctx.real("dr", 0.5, 2)
        m = trimesh.creation.annulus(r_min=r, r_max=r2, height=h, sections=n, transform=Mr)
        vol = A * (r2 * r2 - r * r) * h
    euler = 0 if shape == "annulus" else 2
    v = _solid_checks(ctx, m, "%s(sections=%d)" % (shape, n), euler)
    ctx.eq("%s(sections=%d): volume = inscribed prism / pyramid on revolve's angle grid" % (shape, n), v, vol)
    ctx.eq("%s(sections=%d): mesh.volume" % (shape, n), m.volume, vol)
    # approach to the smooth value: 0 <= 1 - V_n / V_smooth <= 7 / n^2  (2 pi^2 / 3 < 7)
    ratio = A / Fraction(np.pi)
    ctx.concrete_equal("%s(sections=%d): inscribed volume below the smooth one by at most 7/n^2" % (shape, n), bool(0 <= 1 - ratio <= Fraction(7, n * n)), True)
    if ctx.params.get("place", "none") == "none":
        zs = [row[2] for row in _obj(ctx, m.vertices)]
        b = _obj(ctx, m.bounds)
        z0 = 0 if shape == "cone" else -h / 2
        z1 = h if shape == "cone" else h / 2
        ctx.eq("%s: z range" % shape, [b[0][2], b[1][2]], [z0, z1])
        rr = (r + 0) if shape != "annulus" else r2
        ctx.eq("%s: x max = r * max cos on the grid" % shape, b[1][0], rr * max(_grid(n)[0]))


def u_grids(ctx):
    """shapes on their smallest grids: topology + positive volume for all radii / placements"""
    import trimesh

    shape = ctx.params["shape"]
    r = RADII[ctx.choice("r", 3)]
    kind = ["none", "mirror", "mirror-rot", "rot1"][ctx.choice("placement", 4)]
    M = np.eye(4)
    if kind in ("rot1", "mirror-rot"):
        M[:3, :3] = np.array([[float(x) for x in row] for row in lib.ROTATIONS[1]])
    if kind.startswith("mirror"):
        M[:3, 1] *= -1
    M[:3, 3] = [1.5, -2.0, 0.25]
    Mr = None if kind == "none" else M
    if shape == "uv_sphere":
        k = 3 + ctx.choice("count", 6)
        m = trimesh.creation.uv_sphere(radius=r, count=[k, k], transform=Mr)
        euler = 2
    elif shape == "capsule":
        h = RADII[ctx.choice("h", 3)]
        k = 4 + 2 * ctx.choice("count", 3)
        m = trimesh.creation.capsule(height=h, radius=r, count=[k, k], transform=Mr)
        euler = 2
    elif shape == "torus":
        R = r + [1.5, 2.5][ctx.choice("dR", 2)]
        m = trimesh.creation.torus(major_radius=R, minor_radius=r, major_sections=3 + ctx.choice("major", 4), minor_sections=3 + ctx.choice("minor", 4), transform=Mr)
        euler = 0
    _solid_checks(ctx, m, shape, euler)
    ctx.true("%s: mesh.volume positive" % shape, m.volume > 0)


RADII = [0.75, 1.5, 2.25]


def u_primitive(ctx):
    """a primitive's mesh reflects its current parameters after edits"""
    import trimesh

    P = trimesh.primitives
    kind = ctx.params["kind"]
    Mr, M, sign = _placement(ctx)
    kw = {} if Mr is None else {"transform": Mr}
    if kind == "box":
        e = [ctx.real("e%d" % i, 0.5, 4) for i in range(3)]
        e2 = [ctx.real("f%d" % i, 0.5, 4) for i in range(3)]
        p = P.Box(extents=_as(ctx, e), **kw)
        if ctx.choose_bool("read_first"):
            p.vertices, p.volume, p.bounds
        p.primitive.extents = _as(ctx, e2)
        fresh = P.Box(extents=_as(ctx, e2), **kw)
        ctx.eq("Box: analytic volume follows the edit", p.volume, e2[0] * e2[1] * e2[2])
        ctx.eq("Box: mesh volume = analytic volume", _vol(ctx, p.vertices, np.asarray(p.faces)) * sign * sign, e2[0] * e2[1] * e2[2])
        ctx.eq("Box: analytic area", p.area, 2 * (e2[0] * e2[1] + e2[1] * e2[2] + e2[0] * e2[2]))
    else:
        a = RADII[ctx.choice("r_before", 3)]
        b = RADII[ctx.choice("r_after", 3)]
        if kind == "cylinder":
            n = 3 + ctx.choice("sections", 3)
            p = P.Cylinder(radius=a, height=2.0, sections=n, **kw)
            mk = lambda: P.Cylinder(radius=b, height=3.0, sections=n, **kw)
        elif kind == "sphere":
            p = P.Sphere(radius=a, subdivisions=1, **kw)
            mk = lambda: P.Sphere(radius=b, subdivisions=1, **kw)
        if ctx.choose_bool("read_first"):
            p.vertices, p.volume, p.bounds
        p.primitive.radius = b
        if kind == "cylinder":
            p.primitive.height = 3.0
        fresh = mk()
        ctx.eq("%s: analytic volume follows the edit" % kind, p.volume, fresh.volume)
        if ctx.params.get("place", "none") == "none":
            # closed forms of the smooth solid (independent of the tessellation), density 1
            pi = Fraction(float(np.pi))
            rb = Fraction(b)
            if kind == "cylinder":
                mass = pi * rb * rb * 3
                exp = [[mass * (3 * rb * rb + 9) / 12, 0, 0], [0, mass * (3 * rb * rb + 9) / 12, 0], [0, 0, mass * rb * rb / 2]]
            else:
                mass = pi * rb * rb * rb * 4 / 3
                exp = [[mass * rb * rb * 2 / 5, 0, 0], [0, mass * rb * rb * 2 / 5, 0], [0, 0, mass * rb * rb * 2 / 5]]
            ctx.close("%s: analytic volume = closed form (1e-9 relative)" % kind, p.volume / float(mass), 1, 1e-9)
            ctx.close("%s: analytic inertia tensor = closed form of the smooth solid (1e-9 relative)" % kind, np.asarray(nparr.base(p.moment_inertia) if ctx.sym else p.moment_inertia, dtype=object if ctx.sym else float) / float(mass), np.array(exp, dtype=object) / mass if ctx.sym else np.array([[float(x) for x in r] for r in exp]) / float(mass), 1e-9)
    ctx.concrete_equal("%s: faces of the edited primitive = faces of a fresh one" % kind, np.asarray(p.faces).tolist(), np.asarray(fresh.faces).tolist())
    ctx.eq("%s: vertices of the edited primitive = vertices of a fresh one" % kind, p.vertices, fresh.vertices)
    ctx.eq("%s: bounds follow" % kind, p.bounds, fresh.bounds)
    m = trimesh.Trimesh(vertices=_as(ctx, _obj(ctx, p.vertices)), faces=np.asarray(p.faces), process=False)
    _solid_checks(ctx, m, kind + " primitive mesh", 2)


F = "trimesh."
FUN = [F + "creation.box", F + "creation.revolve", F + "creation.cylinder", F + "creation.cone", F + "creation.annulus", F + "creation.capsule", F + "creation.uv_sphere", F + "creation.torus",
       F + "primitives.Box", F + "primitives.Cylinder", F + "primitives.Sphere", F + "primitives.PrimitiveAttributes", F + "primitives.Primitive._create_mesh", F + "base.Trimesh.process", F + "grouping.merge_vertices", F + "triangles.mass_properties"]


def units(tier):
    T = tier == "thorough"
    us = []
    for place in ("none", "translate", "rot1", "mirror", "mirror-rot"):
        us.append(Unit("box-%s" % place, u_box, params={"place": place}, key="box/%s" % place, functions=FUN, bounds="creation.box, extents symbolic in [0.5,4]^3, placement '%s' with symbolic offset" % place, max_paths=40, wall_s=300))
    for shape in ("cylinder", "cone", "annulus"):
        for place in ("none", "mirror") + (("rot1", "mirror-rot") if T else ()):
            if shape == "annulus" and place != "none" and not T:
                continue  # two symbolic radii under a mirrored placement: > 8 min, thorough tier only
            # sized after the first end-to-end thorough run (rotated placements with 10 counts ran into the 1500 s hard timeout)
            rng = ((3, 12) if place == "none" else (3, 5)) if T else ((3, 6) if place == "none" and shape != "annulus" else (3, 4))
            us.append(Unit("%s-%s" % (shape, place), u_revolved, params={"shape": shape, "place": place, "sections": rng}, key="%s/%s" % (shape, place), functions=FUN,
                           bounds="creation.%s, radius/height symbolic, EVERY section count %d..%d, placement '%s'" % (shape, rng[0], rng[1], place), max_paths=60 if not T else 200, wall_s=500 if not T else 1300))
    for shape in ("uv_sphere", "capsule", "torus"):
        us.append(Unit("%s-grids" % shape, u_grids, params={"shape": shape}, key="%s/grids" % shape, functions=FUN, opts={"no_proxy": True},
                       bounds="creation.%s: EVERY combination of catalogue radii, grid counts and 4 placements (incl. mirrored), chosen by the solver; values concrete (the exact-arithmetic run of these generators does not finish), body on plain numpy" % shape, max_paths=500, wall_s=500))
    for kind in ("box", "cylinder", "sphere"):
        for place in ("none", "mirror"):
            us.append(Unit("primitive-%s-%s" % (kind, place), u_primitive, params={"kind": kind, "place": place, "concrete_t": kind != "box"}, key="primitive/%s/%s" % (kind, place), functions=FUN,
                           bounds="primitives.%s: parameters edited after (or before) the mesh was read; placement '%s'" % (kind.capitalize(), place), max_paths=80, wall_s=500))
    return us
