"""symx.nparr -- numpy side: SymArray (object ndarray subclass), ufunc / array-function handlers,
the ``np`` proxy that is planted in the real trimesh modules, and the patching context manager."""
import builtins
import operator as _op
import contextlib
import functools
import math as _math
import sys
import types

import numpy as _np
import z3

from . import angle as _angle
from . import core
from .core import Fraction, NotEncodable, Sym, SymBool, _bterm, _term, is_sym, mkbool

_nd = _np.ndarray


def rd(x):
    """the real numpy dtype (SymArray.dtype may report the *symbolic* dtype of an object array)"""
    return _nd.dtype.__get__(x)


def sd_of(x):
    """symbolic dtype (int64/float64/bool/uint64 ...) of an object array, or None"""
    for _ in range(6):
        if x is None or not isinstance(x, _nd):
            return None
        d = getattr(x, "__dict__", None)
        if d is not None and d.get("_sd") is not None:
            return d["_sd"]
        x = _nd.base.__get__(x)
    return None


def exact_elem(v):
    """concrete numbers living in a float-typed symbolic array become Sym numerals: python int / float / Fraction arithmetic
    would otherwise round (7 ** -1, 1 / 3, Fraction * 0.1) and break exactness"""
    if isinstance(v, (bool, _np.bool_)):
        return v
    if isinstance(v, (int, float, Fraction, _np.integer, _np.floating)):
        try:
            return Sym(core._to_real(_term(core.frac(v))))
        except NotEncodable:
            return v
    return v


def to_exact(x):
    if core.ENGINE is None or not isinstance(x, _nd) or rd(x) != object:
        return x
    flat = _nd.view(x, _nd).reshape(-1) if x.flags.c_contiguous else None
    if flat is None:
        b = _nd.view(x, _nd)
        for idx in _np.ndindex(*b.shape):
            b[idx] = exact_elem(b[idx])
        return x
    for i in range(len(flat)):
        v = flat[i]
        if not isinstance(v, (Sym, SymBool)):
            flat[i] = exact_elem(v)
    return x


def set_sd(x, dtype):
    if isinstance(x, _nd) and rd(x) == object and hasattr(x, "__dict__"):
        x.__dict__["_sd"] = None if dtype is None else _np.dtype(dtype)
        if dtype is not None and _np.dtype(dtype).kind == "f":
            to_exact(x)
    return x


def infer_sd(x):
    """symbolic dtype inferred from the element sorts (fallback when none was recorded)"""
    flat = _nd.view(x, _nd).reshape(-1)
    kind = None
    for v in flat:
        if isinstance(v, (SymBool, bool, _np.bool_)):
            k = "b"
        elif isinstance(v, Sym):
            k = "i" if v.is_int else "f"
        elif isinstance(v, (int, _np.integer)):
            k = "i"
        elif isinstance(v, (float, _np.floating, Fraction)):
            k = "f"
        elif getattr(v, "_is_bv", False):
            k = "u" if not v.signed else "i"
        else:
            return _np.dtype(object)
        if kind is None or (kind == "b") or (kind == "i" and k in "fu") or (kind == "u" and k == "f"):
            kind = k if not (kind is not None and kind != "b" and k == "b") else kind
    return {"b": _np.dtype(bool), "i": _np.dtype(_np.int64), "u": _np.dtype(_np.uint64), "f": _np.dtype(_np.float64), None: _np.dtype(_np.float64)}[kind]


def _fake_dtype(self):
    real = _nd.dtype.__get__(self)
    if real != object:
        return real
    sd = sd_of(self)
    return infer_sd(self) if sd is None else sd


def _result_sd(ufunc, args):
    """numpy's type resolution applied to the symbolic dtypes of the operands"""
    try:
        dummies = []
        for a in args:
            if isinstance(a, _nd):
                dt = sd_of(a) if rd(a) == object else rd(a)
                if dt is None:
                    return None
                dummies.append(_np.empty(0, dtype=dt))
            elif isinstance(a, Sym):
                dummies.append(_np.empty(0, dtype=_np.int64 if a.is_int else _np.float64))
            elif isinstance(a, SymBool):
                dummies.append(_np.empty(0, dtype=bool))
            elif isinstance(a, Fraction):
                dummies.append(1.0)
            elif isinstance(a, (int, float, bool, _np.generic)):
                dummies.append(a)
            else:
                return None
        with _np.errstate(all="ignore"):
            return ufunc(*dummies).dtype
    except Exception:
        return None


def base(x):
    """plain ndarray view of any ndarray subclass (never recurses through overridden .view)"""
    if isinstance(x, _nd) and type(x) is not _nd:
        return _nd.view(x, _nd)
    return x


def has_sym(x):
    if is_sym(x):
        return True
    if isinstance(x, _nd):
        return rd(x) == object
    if isinstance(x, (list, tuple)):
        return any(has_sym(i) for i in x)
    return False


def wrap(x):
    """give object ndarrays the SymArray type"""
    if isinstance(x, _nd) and rd(x) == object and not isinstance(x, SymArray):
        return _nd.view(x, SymArray)
    return x


def tag(r):
    """while an engine is active every ndarray handed back to the code under test carries the SymArray type, so that
    symbolic masks / index arrays can index it (plain ndarrays reject object-dtype indices)"""
    if core.ENGINE is None:
        return r
    if type(r) is _nd:
        return _nd.view(r, SymArray)
    if isinstance(r, tuple):
        return tuple(tag(i) for i in r)
    if isinstance(r, list):
        return [tag(i) for i in r]
    return r


def symarray(x):
    return _nd.view(_np.asarray(base(x) if isinstance(x, _nd) else x, dtype=object), SymArray)


# ---------------------------------------------------------------------------------------------
# element-wise helpers


def _elementwise(f, *arrays, otype=object):
    arrays = [base(a) if isinstance(a, _nd) else a for a in arrays]
    b = _np.broadcast(*arrays)
    out = _np.empty(b.shape, dtype=otype)
    out_flat = out.reshape(-1)
    for i, vals in enumerate(b):
        out_flat[i] = f(*vals)
    if out.ndim == 0:
        return out[()]
    return wrap(out)


def e_sqrt(x):
    if isinstance(x, Sym):
        return x.sqrt()
    if core.ENGINE is None:
        return _math.sqrt(x) if x >= 0 else float("nan")
    # exact also for concrete operands while a symbolic run is active (a float sqrt would inject rounding)
    return core.ENGINE.sqrt(_term(core.frac(x)))


def e_abs(x):
    return abs(x)


def _ite(c, a, b):
    """If(c, a, b) keeping the scalar class of the operands"""
    if not is_sym(c):
        return a if bool(c) else b
    ct = _bterm(c)
    if getattr(a, "_is_bv", False) or getattr(b, "_is_bv", False):
        bv = a if getattr(a, "_is_bv", False) else b
        return core.SymBV(z3.If(ct, bv._o(a), bv._o(b)), bv.signed)
    if isinstance(a, (SymBool, bool, _np.bool_)) and isinstance(b, (SymBool, bool, _np.bool_)):
        return mkbool(z3.simplify(z3.If(ct, _bterm(a), _bterm(b))))
    ta, tb = _term(a), _term(b)
    if core._is_real(ta) != core._is_real(tb):
        ta, tb = core._to_real(ta), core._to_real(tb)
    return Sym(z3.If(ct, ta, tb))


def e_max(a, b):
    if not is_sym(a) and not is_sym(b):
        return a if a >= b else b
    return _ite(a >= b, a, b)


def e_min(a, b):
    if not is_sym(a) and not is_sym(b):
        return a if a <= b else b
    return _ite(a <= b, a, b)


def e_and(a, b):
    if not is_sym(a) and not is_sym(b):
        return bool(a) and bool(b)
    if not is_sym(a):
        return b if bool(a) else False
    if not is_sym(b):
        return a if bool(b) else False
    return SymBool(z3.And(_bterm(a), _bterm(b)))


def e_or(a, b):
    if not is_sym(a) and not is_sym(b):
        return bool(a) or bool(b)
    if not is_sym(a):
        return True if bool(a) else b
    if not is_sym(b):
        return True if bool(b) else a
    return SymBool(z3.Or(_bterm(a), _bterm(b)))


def e_not(a):
    if not is_sym(a):
        return not bool(a)
    return SymBool(z3.Not(_bterm(a)))


def e_xor(a, b):
    if not is_sym(a) and not is_sym(b):
        return bool(a) != bool(b)
    return SymBool(z3.Xor(_bterm(a), _bterm(b)))


def e_where(c, a, b):
    return _ite(c, a, b)


def e_sign(x):
    if not is_sym(x):
        return (x > 0) - (x < 0)
    t = _term(x)
    return Sym(z3.If(t > 0, 1, z3.If(t < 0, -1, 0)))


def e_floor(x):
    if isinstance(x, Sym):
        return x.floor()
    return _math.floor(x)


def e_ceil(x):
    if isinstance(x, Sym):
        return x.ceil()
    return _math.ceil(x)


def e_rint(x):
    if isinstance(x, Sym):
        return core.sym_round(x)
    return round(x)


def e_trunc(x):
    if isinstance(x, Sym):
        if x.is_int:
            return x
        return Sym(z3.If(x.t >= 0, z3.ToInt(x.t), -z3.ToInt(-x.t)))
    return _math.trunc(x)


def _cmp(op):
    def f(a, b):
        r = op(a, b)
        if r is NotImplemented:
            raise NotEncodable("comparison")
        if isinstance(r, SymBool):
            return mkbool(z3.simplify(r.t)) if False else r
        return bool(r)

    return f



_UFUNCS = {
    "sqrt": lambda x: _elementwise(e_sqrt, x),
    "cbrt": lambda x: _elementwise(e_cbrt, x),
    "absolute": lambda x: _elementwise(e_abs, x),
    "fabs": lambda x: _elementwise(e_abs, x),
    "maximum": lambda a, b: _elementwise(e_max, a, b),
    "minimum": lambda a, b: _elementwise(e_min, a, b),
    "fmax": lambda a, b: _elementwise(e_max, a, b),
    "fmin": lambda a, b: _elementwise(e_min, a, b),
    "logical_and": lambda a, b: _elementwise(e_and, a, b),
    "logical_or": lambda a, b: _elementwise(e_or, a, b),
    "logical_not": lambda a: _elementwise(e_not, a),
    "logical_xor": lambda a, b: _elementwise(e_xor, a, b),
    "bitwise_and": lambda a, b: _elementwise(lambda x, y: e_and(x, y) if isinstance(x, (SymBool, bool, _np.bool_)) or isinstance(y, (SymBool, bool, _np.bool_)) else x & y, a, b),
    "bitwise_or": lambda a, b: _elementwise(lambda x, y: e_or(x, y) if isinstance(x, (SymBool, bool, _np.bool_)) or isinstance(y, (SymBool, bool, _np.bool_)) else x | y, a, b),
    "bitwise_xor": lambda a, b: _elementwise(lambda x, y: e_xor(x, y) if isinstance(x, (SymBool, bool, _np.bool_)) or isinstance(y, (SymBool, bool, _np.bool_)) else x ^ y, a, b),
    "invert": lambda a: _elementwise(lambda x: e_not(x) if isinstance(x, (SymBool, bool, _np.bool_)) else ~x, a),
    "bitwise_not": lambda a: _elementwise(lambda x: e_not(x) if isinstance(x, (SymBool, bool, _np.bool_)) else ~x, a),
    "sign": lambda x: _elementwise(e_sign, x),
    "floor": lambda x: _elementwise(e_floor, x),
    "ceil": lambda x: _elementwise(e_ceil, x),
    "rint": lambda x: _elementwise(e_rint, x),
    "trunc": lambda x: _elementwise(e_trunc, x),
    "isfinite": lambda x: _np.ones(_np.shape(x), dtype=bool)[()] if True else None,
    "isnan": lambda x: _np.zeros(_np.shape(x), dtype=bool)[()],
    "isinf": lambda x: _np.zeros(_np.shape(x), dtype=bool)[()],
    "less": lambda a, b: _elementwise(_cmp(_op.lt), a, b),
    "less_equal": lambda a, b: _elementwise(_cmp(_op.le), a, b),
    "greater": lambda a, b: _elementwise(_cmp(_op.gt), a, b),
    "greater_equal": lambda a, b: _elementwise(_cmp(_op.ge), a, b),
    "equal": lambda a, b: _elementwise(_cmp(_op.eq), a, b),
    "not_equal": lambda a, b: _elementwise(_cmp(_op.ne), a, b),
    "square": lambda x: _elementwise(lambda v: v * v, x),
    "reciprocal": lambda x: _elementwise(lambda v: 1 / v, x),
    "conjugate": lambda x: x,
    "arctan2": lambda y, x: _elementwise(_angle.arctan2, y, x),
    "arcsin": lambda x: _elementwise(_angle.arcsin, x),
    "arccos": lambda x: _elementwise(_angle.arccos, x),
    "sin": lambda x: _elementwise(_angle.sin, x),
    "cos": lambda x: _elementwise(_angle.cos, x),
    "positive": lambda x: x,
}


def _all_concrete(a):
    """object array holding only concrete python values -> proper dtype array"""
    return a


def _tidy(r):
    """object arrays of only python bools -> bool arrays (so that masks index natively)"""
    if isinstance(r, _nd) and rd(r) == object and r.size and all(isinstance(v, (bool, _np.bool_)) for v in base(r).reshape(-1)):
        return base(r).astype(bool)
    return r


def sym_array_ufunc(self, ufunc, method, *inputs, out=None, **kw):
    anysym = any(isinstance(x, _nd) and rd(x) == object for x in inputs) or any(is_sym(x) for x in inputs)
    if out is not None:
        anysym = anysym or any(isinstance(o, _nd) and rd(o) == object for o in out)
    args = [base(x) if isinstance(x, _nd) else x for x in inputs]
    if not anysym:
        if out is not None:
            kw["out"] = tuple(base(o) for o in out)
            getattr(ufunc, method)(*args, **kw)
            return out[0] if len(out) == 1 else out
        return tag(getattr(ufunc, method)(*args, **kw))
    name = ufunc.__name__
    if method == "__call__" and name in _UFUNCS:
        kw.pop("dtype", None)
        where = kw.pop("where", True)
        kw.pop("casting", None)
        if where is not True or kw:
            raise NotEncodable("ufunc %s kwargs %r" % (name, list(kw)))
        r = _UFUNCS[name](*args)
        r = _tidy(r)
        if out is not None:
            base(out[0])[...] = r
            return out[0]
        if isinstance(r, _nd) and rd(r) == object:
            set_sd(r, _result_sd(ufunc, inputs))
        return r
    if method == "reduce" and name in ("maximum", "minimum", "logical_and", "logical_or"):
        f = {"maximum": e_max, "minimum": e_min, "logical_and": e_and, "logical_or": e_or}[name]
        return _reduce(f, args[0], kw.get("axis", 0), kw.get("keepdims", False), initial={"logical_and": True, "logical_or": False}.get(name))
    if out is not None:
        kw["out"] = tuple(base(o) for o in out)
        getattr(ufunc, method)(*args, **kw)
        return out[0] if len(out) == 1 else out
    if kw.get("dtype") is not None and _np.dtype(kw["dtype"]) != object:
        kw = dict(kw)
        kw["dtype"] = object
    r = getattr(ufunc, method)(*args, **kw)
    if isinstance(r, _nd):
        r = _tidy(wrap(r))
        if rd(r) == object:
            if method == "__call__":
                set_sd(r, _result_sd(ufunc, inputs))
            elif isinstance(inputs[0], _nd):
                d0 = sd_of(inputs[0])
                set_sd(r, _np.dtype(_np.int64) if d0 is not None and d0.kind == "b" else d0)
    return r


def _reduce(f, a, axis=None, keepdims=False, initial=None):
    a = base(_np.asarray(a, dtype=object))
    if axis is None:
        vals = list(a.reshape(-1))
        if not vals:
            if initial is None:
                raise ValueError("zero-size array to reduction operation which has no identity")
            return initial
        r = functools.reduce(f, vals) if initial is None else functools.reduce(f, vals, initial)
        if keepdims:
            o = _np.empty((1,) * a.ndim, dtype=object)
            o[...] = r
            return wrap(o)
        return r
    if isinstance(axis, tuple):
        if len(axis) == 1:
            axis = axis[0]
        else:
            raise NotEncodable("multi axis reduce")
    moved = _np.moveaxis(a, axis, 0)
    if moved.shape[0] == 0:
        if initial is None:
            raise ValueError("zero-size array to reduction operation which has no identity")
        out = _np.empty(moved.shape[1:], dtype=object)
        out[...] = initial
    else:
        out = _np.empty(moved.shape[1:], dtype=object)
        for idx in _np.ndindex(*out.shape):
            col = [moved[(k,) + idx] for k in range(moved.shape[0])]
            out[idx] = functools.reduce(f, col) if initial is None else functools.reduce(f, col, initial)
    if keepdims:
        out = _np.expand_dims(out, axis)
    if out.ndim == 0:
        return out[()]
    return _tidy(wrap(out))


def _reduce_sd(f, a, axis=None, keepdims=False, initial=None):
    r = _reduce(f, a, axis, keepdims, initial)
    if isinstance(r, _nd) and rd(r) == object and isinstance(a, _nd):
        d0 = sd_of(a)
        if d0 is not None and d0.kind == "b" and f in (_op.add, _op.mul):
            d0 = _np.dtype(_np.int64)
        set_sd(r, d0)
    return r


def concretize_bools(a):
    """object array of SymBool/bool -> bool ndarray (forks)"""
    a = base(_np.asarray(a))
    if rd(a) != object:
        return a
    out = _np.empty(a.shape, dtype=bool)
    flat = out.reshape(-1)
    for i, v in enumerate(a.reshape(-1)):
        flat[i] = bool(v)
    return out


def concretize_ints(a):
    a = base(_np.asarray(a))
    if rd(a) != object:
        return a
    out = _np.empty(a.shape, dtype=_np.int64)
    flat = out.reshape(-1)
    for i, v in enumerate(a.reshape(-1)):
        flat[i] = int(v)
    return out


def _conc_index(idx):
    """make an index expression concrete"""
    if isinstance(idx, tuple):
        return tuple(_conc_index(i) for i in idx)
    if isinstance(idx, SymBool):
        return bool(idx)
    if isinstance(idx, Sym):
        return int(idx)
    if isinstance(idx, _nd) and rd(idx) == object:
        flat = base(idx).reshape(-1)
        if len(flat) == 0:
            return base(idx).astype(_np.int64)
        if all(isinstance(v, (SymBool, bool, _np.bool_)) for v in flat):
            return concretize_bools(idx)
        return concretize_ints(idx)
    if isinstance(idx, _nd):
        return base(idx)
    if isinstance(idx, list) and has_sym(idx):
        return _conc_index(_np.array(idx, dtype=object))
    return idx


class SymArray(_nd):
    """object ndarray whose elements are python numbers, Sym or SymBool"""

    __array_priority__ = 100.0

    def __array_finalize__(self, obj):
        pass

    # `a *= b` on a concrete float array with a symbolic operand cannot write Sym objects into float storage: python rebinds the name to
    # whatever __imul__ returns, so return a fresh symbolic array (aliases of `a` do not see the update: only local temporaries do this in trimesh)
    def _inplace(name, op):
        def f(self, o):
            if rd(self) != object and rd(self).kind == "f" and has_sym(o) and type(self) is SymArray:
                return op(self, o)
            return getattr(_nd, name)(self, o)

        f.__name__ = name
        return f

    __imul__ = _inplace("__imul__", lambda a, b: a * b)
    __iadd__ = _inplace("__iadd__", lambda a, b: a + b)
    __isub__ = _inplace("__isub__", lambda a, b: a - b)
    __itruediv__ = _inplace("__itruediv__", lambda a, b: a / b)
    del _inplace

    def _set_dtype(self, value):
        _nd.dtype.__set__(self, value)

    dtype = property(_fake_dtype, _set_dtype)

    __array_ufunc__ = sym_array_ufunc

    def __array_function__(self, func, types_, args, kwargs):
        return sym_array_function(func, types_, args, kwargs)

    def __getitem__(self, idx):
        r = _nd.__getitem__(self, _conc_index(idx))
        if isinstance(r, _nd):
            if rd(r) == object and _nd.base.__get__(r) is None:
                set_sd(r, sd_of(self))
            return r
        if core.ENGINE is not None and rd(self) == object and not isinstance(r, (bool, _np.bool_)):
            # exact constants leave a float-typed array as Sym numerals: like numpy scalars they then cooperate with lists etc.
            if isinstance(r, Fraction):
                return Sym(_term(r))
            if isinstance(r, (int, float)):
                d = sd_of(self)
                if d is not None and d.kind == "f":
                    return Sym(core._to_real(_term(r)))
        return r

    def __setitem__(self, idx, val):
        if rd(self) != object and has_sym(val):
            k = rd(self).kind
            if isinstance(val, (list, tuple)):
                val = _np.array(_strip_deep(val), dtype=object)
            if k == "b":
                val = concretize_bools(val) if isinstance(val, _nd) else bool(val)
            elif k in "iu":
                val = concretize_ints(val) if isinstance(val, _nd) else int(val)
            else:
                raise NotEncodable("symbolic value stored into a concrete %s array" % rd(self))
        elif rd(self) == object and core.ENGINE is not None:
            d = sd_of(self)
            if d is not None and d.kind == "f":
                if isinstance(val, _nd):
                    if rd(val) != object or not isinstance(val, SymArray) or sd_of(val) is None or sd_of(val).kind != "f":
                        val = to_exact(_np.array(base(val), dtype=object))
                elif isinstance(val, (list, tuple)):
                    val = to_exact(_np.array(_strip_deep(val), dtype=object))
                else:
                    val = exact_elem(val)
        _nd.__setitem__(self, _conc_index(idx), val)

    def view(self, *a, **k):
        if a and a[0] is _nd and rd(self) == object:
            return _nd.view(self, SymArray)
        if a and isinstance(a[0], type) and issubclass(a[0], _nd):
            return _nd.view(self, *a, **k)
        if (a or k) and rd(self) == object:
            return sym_dtype_view(self, a[0] if a else k.get("dtype"))
        return _nd.view(self, *a, **k)

    def astype(self, dtype, *a, **k):
        if rd(self) != object:
            return _nd.astype(self, dtype, *a, **k)
        return sym_astype(self, dtype)

    def all(self, axis=None, out=None, keepdims=False, **k):
        if rd(self) != object:
            return _nd.all(base(self), axis=axis, keepdims=keepdims)
        return _reduce(e_and, self, axis, keepdims, initial=True)

    def any(self, axis=None, out=None, keepdims=False, **k):
        if rd(self) != object:
            return _nd.any(base(self), axis=axis, keepdims=keepdims)
        return _reduce(e_or, self, axis, keepdims, initial=False)

    def max(self, axis=None, out=None, keepdims=False, **k):
        if rd(self) != object:
            return _nd.max(base(self), axis=axis, keepdims=keepdims)
        return _reduce_sd(e_max, self, axis, keepdims)

    def min(self, axis=None, out=None, keepdims=False, **k):
        if rd(self) != object:
            return _nd.min(base(self), axis=axis, keepdims=keepdims)
        return _reduce_sd(e_min, self, axis, keepdims)

    def ptp(self, axis=None, **k):
        return self.max(axis=axis) - self.min(axis=axis)

    def sum(self, axis=None, dtype=None, out=None, keepdims=False, **k):
        if rd(self) != object:
            return _nd.sum(base(self), axis=axis, dtype=dtype, keepdims=keepdims)
        return _reduce_sd(_op.add, self, axis, keepdims, initial=0)

    def prod(self, axis=None, dtype=None, out=None, keepdims=False, **k):
        return _reduce(_op.mul, self, axis, keepdims, initial=1)

    def mean(self, axis=None, dtype=None, out=None, keepdims=False, **k):
        n = self.size if axis is None else self.shape[axis]
        return self.sum(axis=axis, keepdims=keepdims) / n

    def round(self, decimals=0, out=None):
        return sym_round_array(self, decimals)

    def clip(self, a_min=None, a_max=None, out=None, **k):
        r = self
        if a_min is not None:
            r = _elementwise(e_max, r, a_min)
        if a_max is not None:
            r = _elementwise(e_min, r, a_max)
        return r

    def argmax(self, axis=None, **k):
        return sym_argext(self, axis, True)

    def argmin(self, axis=None, **k):
        return sym_argext(self, axis, False)

    def sort(self, axis=-1, kind=None, order=None):
        s = sym_sort(self, axis)
        base(self)[...] = base(s)

    def argsort(self, axis=-1, kind=None, order=None):
        return sym_argsort(self, axis)

    def nonzero(self):
        return _np.nonzero(concretize_bools(_elementwise(lambda v: v != 0 if isinstance(v, Sym) else (v if isinstance(v, SymBool) else bool(v)), self)))

    def tobytes(self, *a, **k):
        if rd(self) != object:
            return _nd.tobytes(base(self), *a, **k)
        return ("|".join(_ser(v) for v in base(self).reshape(-1)) + "#%r" % (self.shape,)).encode()

    def tolist(self):
        return base(self).tolist()

    def copy(self, order="C"):
        if rd(self) != object:
            return _nd.copy(self, order=order)
        r = _nd.copy(base(self), order=order)
        # keep the array class (the method is also planted on trimesh's TrackedArray)
        r = _nd.view(r, type(self)) if type(self) is not _nd else wrap(r)
        return set_sd(r, sd_of(self))

    def __bool__(self):
        if self.size != 1:
            raise ValueError("The truth value of an array with more than one element is ambiguous.")
        return bool(base(self).reshape(-1)[0])

    def __float__(self):
        if self.size == 1:
            v = base(self).reshape(-1)[0]
            if is_sym(v):
                raise NotEncodable("float() of symbolic array")
            return float(v)
        raise TypeError("only length-1 arrays can be converted")

    def __reduce__(self):
        raise NotEncodable("pickle of symbolic array")

    def __deepcopy__(self, memo):
        r = self.copy()
        if rd(self) == object:
            # symbolic scalars are immutable values; any other element (entities, lists, nested arrays) must be copied like numpy does
            import copy as _cp

            flat = base(r).reshape(-1) if base(r).flags.c_contiguous else None
            it = flat if flat is not None else None
            if it is not None:
                for i in range(len(it)):
                    v = it[i]
                    if not isinstance(v, (Sym, SymBool, int, float, bool, str, Fraction, _np.number, type(None))) and not getattr(v, "_is_bv", False):
                        it[i] = _cp.deepcopy(v, memo)
        return r


def _ser(v):
    if isinstance(v, (Sym, SymBool)):
        return "z3:%s" % v.t.sexpr()
    if isinstance(v, (int, _np.integer)):
        return "q:%d" % int(v)
    if isinstance(v, (bool, _np.bool_)):
        return "b:%d" % int(v)
    return "q:%s" % core.frac(v)


_INT_KINDS = "iu"


def sym_astype(a, dtype):
    r = _sym_astype(a, dtype)
    if isinstance(r, _nd) and rd(r) == object and dtype is not object and _np.dtype(dtype) != object:
        if r is a or _nd.base.__get__(r) is not None:
            r = wrap(base(r).copy())
        set_sd(r, _np.dtype(dtype))
    return r


def _sym_astype(a, dtype):
    dt = _np.dtype(dtype) if dtype is not object else _np.dtype(object)
    flat = base(a).reshape(-1)
    if dt.kind in "iu" and rd(a) == object and any(getattr(v, "_is_bv", False) for v in flat):
        return _elementwise(lambda v: v.astype(dt) if getattr(v, "_is_bv", False) else v, a)
    cur = sd_of(a) if isinstance(a, _nd) else None
    if dt.kind in "iu" and cur is not None and cur.kind in "iu":
        return wrap(base(a).copy())
    if dt == object or dt.kind == "f":
        # reals stay exact; Int-sorted values become reals only formally
        if not any(is_sym(v) for v in flat) and dt.kind == "f" and (core.ENGINE is None or all(isinstance(v, (float, _np.floating)) for v in flat)):
            return base(a).astype(dt)
        if dt.kind == "f":
            return _elementwise(lambda v: (Sym(z3.If(v.t, z3.RealVal(1), z3.RealVal(0))) if isinstance(v, SymBool) else v), a) if a.size else wrap(base(a).copy())
        return wrap(base(a).copy())
    if dt.kind == "b":
        r = _elementwise(lambda v: v if isinstance(v, (SymBool, bool, _np.bool_)) else (v != 0), a)
        return _tidy(r)
    if dt.kind in _INT_KINDS:
        if not any(is_sym(v) for v in flat):
            return base(a).astype(dt)

        def conv(v):
            if isinstance(v, SymBool):
                return v._num()
            if isinstance(v, Sym):
                return e_trunc(v)
            return int(v)

        r = _elementwise(conv, a)
        core.ENGINE.note_int_range(r, dt)
        return r
    raise NotEncodable("astype %s" % dt)


def sym_dtype_view(a, dtype):
    """np.void / structured views of int64 rows become RowKey objects, and back"""
    flat = base(a)
    try:
        dt = _np.dtype(dtype)
    except TypeError:
        raise NotEncodable("dtype view of symbolic array")
    if flat.size == 0:
        return tag(_np.zeros(0, dtype=dt))
    first = flat.reshape(-1)[0] if flat.size else None
    if isinstance(first, core.RowKey):
        if dt.kind in "iu" and dt.itemsize == 8:
            rows = [list(k.row) for k in flat.reshape(-1)]
            out = _np.empty((len(rows), len(rows[0]) if rows else 0), dtype=object)
            for i, r in enumerate(rows):
                out[i] = r
            return set_sd(wrap(out.reshape(-1)), dt)
        raise NotEncodable("view of row keys as %s" % dt)
    if dt.kind == "V":
        cols = dt.itemsize // 8
        if flat.ndim != 2 or flat.shape[1] != cols:
            raise NotEncodable("void view of shape %r as %s" % (flat.shape, dt))
        out = _np.empty((flat.shape[0], 1), dtype=object)
        for i in range(flat.shape[0]):
            out[i, 0] = core.RowKey(flat[i])
        return wrap(out)
    raise NotEncodable("dtype view of symbolic array as %s" % dt)


def sym_round_array(a, decimals=0):
    k = Fraction(10) ** int(decimals)

    def rnd(v):
        if not isinstance(v, Sym):
            return round(v, decimals) if not isinstance(v, Fraction) else Fraction(round(v * k)) / k
        r = core.sym_round(v * k if decimals else v)
        if isinstance(r, Sym):
            r = Sym(z3.ToReal(r.t)) if not core._is_real(r.t) else r
        return r / k if decimals else r

    return _elementwise(rnd, a)


def sym_argext(a, axis, is_max):
    """argmax / argmin by comparison forking (first occurrence wins, as numpy)"""
    a = base(_np.asarray(a, dtype=object))
    if axis is None:
        flat = a.reshape(-1)
        best = 0
        for i in range(1, len(flat)):
            c = (flat[i] > flat[best]) if is_max else (flat[i] < flat[best])
            if bool(c):
                best = i
        return best
    moved = _np.moveaxis(a, axis, 0)
    out = _np.zeros(moved.shape[1:], dtype=_np.int64)
    for idx in _np.ndindex(*out.shape):
        out[idx] = sym_argext(_np.array([moved[(k,) + idx] for k in range(moved.shape[0])], dtype=object), None, is_max)
    return out


def _argsort1(vals):
    """stable argsort of a python list by comparison forking (insertion sort: deterministic)"""
    order = []
    for i, v in enumerate(vals):
        pos = len(order)
        # stable: insert after all elements <= v
        while pos > 0 and bool(v < vals[order[pos - 1]]):
            pos -= 1
        order.insert(pos, i)
    return order


def sym_argsort(a, axis=-1):
    a = base(_np.asarray(a, dtype=object))
    if a.ndim == 1:
        return _np.array(_argsort1(list(a)), dtype=_np.int64)
    moved = _np.moveaxis(a, axis, -1)
    out = _np.zeros(moved.shape, dtype=_np.int64)
    for idx in _np.ndindex(*moved.shape[:-1]):
        out[idx] = _argsort1(list(moved[idx]))
    return _np.moveaxis(out, -1, axis)


def sym_sort(a, axis=-1):
    a = base(_np.asarray(a, dtype=object))
    if axis is None:
        a = a.reshape(-1)
        axis = -1
    order = sym_argsort(a, axis)
    return wrap(_np.take_along_axis(a, order, axis))


def sort_minmax(a, axis=-1):
    """fork-free sort along an axis of length <= 3 using min/max networks"""
    a = base(_np.asarray(a, dtype=object))
    moved = _np.moveaxis(a, axis, -1)
    n = moved.shape[-1]
    out = moved.copy()
    cols = [out[..., i] for i in range(n)]

    def cs(i, j):
        lo = _elementwise(e_min, cols[i], cols[j])
        hi = _elementwise(e_max, cols[i], cols[j])
        cols[i], cols[j] = lo, hi

    if n == 2:
        cs(0, 1)
    elif n == 3:
        cs(0, 1)
        cs(1, 2)
        cs(0, 1)
    elif n > 3:
        for i in range(n):
            for j in range(0, n - 1 - i):
                cs(j, j + 1)
    res = _np.stack([base(_np.asarray(c, dtype=object)) for c in cols], axis=-1) if n else out
    return wrap(_np.moveaxis(res, -1, axis))


# ---------------------------------------------------------------------------------------------
# array-function handlers (np.<func>(symarray) dispatches here; also used by the proxy)

_FUNCS = {}


def implements(*names):
    def deco(f):
        for n in names:
            _FUNCS[n] = f
        return f

    return deco


def _stub_for(key):
    """contract stubs a unit may plant for compiled back-ends (each use is part of the unit's stated assumptions)"""
    eng = core.ENGINE
    if eng is None:
        return None
    return (eng.opts.get("stubs") or {}).get(key)


def sym_array_function(func, types_, args, kwargs):
    name = getattr(func, "__name__", None)
    mod = getattr(func, "__module__", "") or ""
    key = ("linalg." + name) if "linalg" in mod else name
    st = _stub_for(key)
    if st is not None and (_any_sym_args(args) or _any_sym_args(tuple(kwargs.values()))):
        return tag(st(*args, **kwargs))
    anysym = _any_sym_args(args) or _any_sym_args(tuple(kwargs.values()))
    if anysym and key in _FUNCS:
        return tag(_FUNCS[key](*args, **kwargs))
    # default: run numpy's own implementation on base-class views, re-wrap the result
    impl = getattr(func, "_implementation", None)
    if anysym and impl is not None and key not in _NATIVE_OK:
        # python-level numpy implementations recurse into ufuncs / methods that we handle
        try:
            r = impl(*args, **kwargs)
        except TypeError as e:
            raise NotEncodable("numpy.%s on symbolic data: %s" % (key, e))
        return _rewrap(r, _first_sd(args))
    a2 = _strip(args)
    k2 = {k: _strip(v) for k, v in kwargs.items()}
    r = func(*a2, **k2)
    return _rewrap(r, _first_sd(args))


_NATIVE_OK = {
    "concatenate", "stack", "vstack", "hstack", "column_stack", "dstack", "dot", "cross", "tile", "reshape", "transpose",
    "roll", "take", "diff", "cumsum", "append", "insert", "delete", "flip", "fliplr", "flipud", "ravel", "squeeze", "expand_dims",
    "moveaxis", "swapaxes", "atleast_1d", "atleast_2d", "broadcast_to", "outer", "inner", "matmul", "tensordot", "trace", "diag",
    "diagonal", "copy", "split", "array_split", "hsplit", "vsplit", "take_along_axis", "triu", "tril", "kron", "block", "pad",
    "rollaxis", "fill_diagonal", "ndim", "shape", "size", "may_share_memory", "shares_memory", "copyto", "meshgrid", "identity",
}


def _any_sym_args(args):
    for a in args:
        if is_sym(a) or isinstance(a, (Fraction, _angle.Angle)):
            return True
        if isinstance(a, _nd) and rd(a) == object:
            return True
        if isinstance(a, (list, tuple)) and _any_sym_args(a):
            return True
    return False


def _strip(x):
    if isinstance(x, _nd):
        return base(x)
    if isinstance(x, tuple):
        return tuple(_strip(i) for i in x)
    if isinstance(x, list):
        return [_strip(i) for i in x]
    return x


def _first_sd(args):
    for a in args:
        if isinstance(a, _nd) and rd(a) == object:
            d = sd_of(a)
            if d is not None:
                return d
        if isinstance(a, (list, tuple)):
            d = _first_sd(a)
            if d is not None:
                return d
    return None


def _rewrap(r, sd=None):
    if isinstance(r, _nd):
        if rd(r) != object:
            return tag(r)
        r = _tidy(wrap(r))
        if sd is not None and isinstance(r, _nd) and rd(r) == object and sd_of(r) is None:
            set_sd(r, sd)
        return r
    if isinstance(r, tuple):
        return tuple(_rewrap(i, sd) for i in r)
    if isinstance(r, list):
        return [_rewrap(i, sd) for i in r]
    return r


@implements("where")
def f_where(cond, x=None, y=None):
    if x is None and y is None:
        return _np.nonzero(concretize_bools(_obj(cond) if isinstance(cond, _nd) else _np.asarray(cond)))
    return _tidy(_elementwise(e_where, _obj(cond), _obj(x), _obj(y)))


def _obj(x):
    if isinstance(x, _nd):
        return base(x)
    if isinstance(x, (list, tuple)):
        return _np.array(x, dtype=object) if has_sym(x) else _np.asarray(x)
    return x


def e_cbrt(x):
    if isinstance(x, Sym):
        return x.cbrt()
    if core.ENGINE is None:
        return float(_np.cbrt(x))
    return core.ENGINE.cbrt(_term(core.frac(x)))


@implements("cbrt")
def f_cbrt(x, **k):
    x = _obj(x)
    return _elementwise(e_cbrt, x) if isinstance(x, _nd) and x.ndim else e_cbrt(x.item() if isinstance(x, _nd) else x)


@implements("sqrt")
def f_sqrt(x, **k):
    return _elementwise(e_sqrt, _obj(x))


@implements("abs", "absolute", "fabs")
def f_abs(x, **k):
    return _elementwise(e_abs, _obj(x))


@implements("sign")
def f_sign(x, **k):
    return _elementwise(e_sign, _obj(x))


@implements("isfinite")
def f_isfinite(x, **k):
    return _np.ones(_np.shape(x), dtype=bool)[()]


@implements("isnan", "isinf")
def f_isnan(x, **k):
    return _np.zeros(_np.shape(x), dtype=bool)[()]


@implements("nan_to_num")
def f_nan_to_num(x, *a, **k):
    return x


@implements("maximum", "fmax")
def f_maximum(a, b, **k):
    return _elementwise(e_max, _obj(a), _obj(b))


@implements("minimum", "fmin")
def f_minimum(a, b, **k):
    return _elementwise(e_min, _obj(a), _obj(b))


@implements("clip")
def f_clip(a, a_min=None, a_max=None, out=None, **k):
    r = _obj(a)
    if a_min is not None:
        r = _elementwise(e_max, r, _obj(a_min))
    if a_max is not None:
        r = _elementwise(e_min, r, _obj(a_max))
    return r


@implements("max", "amax")
def f_max(a, axis=None, out=None, keepdims=False, **k):
    return _reduce_sd(e_max, a if isinstance(a, _nd) else _obj(a), axis, keepdims)


@implements("min", "amin")
def f_min(a, axis=None, out=None, keepdims=False, **k):
    return _reduce_sd(e_min, a if isinstance(a, _nd) else _obj(a), axis, keepdims)


@implements("ptp")
def f_ptp(a, axis=None, **k):
    return f_max(a, axis) - f_min(a, axis)


@implements("sum")
def f_sum(a, axis=None, dtype=None, out=None, keepdims=False, **k):
    return _reduce_sd(_op.add, a if isinstance(a, _nd) else _obj(a), axis, keepdims, initial=0)


@implements("prod")
def f_prod(a, axis=None, dtype=None, out=None, keepdims=False, **k):
    return _reduce(_op.mul, _obj(a), axis, keepdims, initial=1)


@implements("mean", "average")
def f_mean(a, axis=None, dtype=None, out=None, keepdims=False, weights=None, **k):
    a = _obj(a)
    if weights is not None:
        w = _obj(weights)
        return f_sum(a * w if _np.ndim(w) == _np.ndim(a) else _np.moveaxis(_np.moveaxis(a, axis, -1) * w, -1, axis), axis) / f_sum(w)
    n = _np.size(a) if axis is None else _np.shape(a)[axis]
    return f_sum(a, axis, keepdims=keepdims) / n


@implements("all", "alltrue")
def f_all(a, axis=None, out=None, keepdims=False, **k):
    return _reduce(e_and, _obj(a), axis, keepdims, initial=True)


@implements("any", "sometrue")
def f_any(a, axis=None, out=None, keepdims=False, **k):
    return _reduce(e_or, _obj(a), axis, keepdims, initial=False)


@implements("logical_and")
def f_land(a, b, **k):
    return _tidy(_elementwise(e_and, _obj(a), _obj(b)))


@implements("logical_or")
def f_lor(a, b, **k):
    return _tidy(_elementwise(e_or, _obj(a), _obj(b)))


@implements("logical_not")
def f_lnot(a, **k):
    return _tidy(_elementwise(e_not, _obj(a)))


@implements("round", "around", "round_")
def f_round(a, decimals=0, out=None):
    return sym_round_array(_obj(a), decimals)


@implements("floor")
def f_floor(a, **k):
    return _elementwise(e_floor, _obj(a))


@implements("ceil")
def f_ceil(a, **k):
    return _elementwise(e_ceil, _obj(a))


@implements("rint")
def f_rint(a, **k):
    return _elementwise(e_rint, _obj(a))


@implements("trunc", "fix")
def f_trunc(a, **k):
    return _elementwise(e_trunc, _obj(a))


@implements("argmax")
def f_argmax(a, axis=None, **k):
    return sym_argext(_obj(a), axis, True)


@implements("argmin")
def f_argmin(a, axis=None, **k):
    return sym_argext(_obj(a), axis, False)


@implements("sort")
def f_sort(a, axis=-1, kind=None, order=None, **k):
    return sym_sort(_obj(a), axis)


@implements("argsort")
def f_argsort(a, axis=-1, kind=None, order=None, **k):
    return sym_argsort(_obj(a), axis)


@implements("lexsort")
def f_lexsort(keys, axis=-1):
    keys = [list(base(_np.asarray(k_, dtype=object))) for k_ in keys]
    n = len(keys[0])
    order = []

    def less(i, j):
        for k_ in reversed(keys):
            if bool(k_[i] < k_[j]):
                return True
            if bool(k_[j] < k_[i]):
                return False
        return False

    for i in range(n):
        pos = len(order)
        while pos > 0 and less(i, order[pos - 1]):
            pos -= 1
        order.insert(pos, i)
    return _np.array(order, dtype=_np.int64)


@implements("nonzero", "flatnonzero")
def f_nonzero(a):
    return symarray(a).nonzero()


@implements("count_nonzero")
def f_count_nonzero(a, axis=None, **k):
    return f_sum(_elementwise(lambda v: (v != 0) if isinstance(v, Sym) else v, _obj(a)), axis)


@implements("array_equal")
def f_array_equal(a, b, **k):
    a, b = _obj(_np.asanyarray(a) if not isinstance(a, _nd) else a), _obj(_np.asanyarray(b) if not isinstance(b, _nd) else b)
    if _np.shape(a) != _np.shape(b):
        return False
    return bool(_reduce(e_and, _elementwise(_cmp(_op.eq), a, b), None, False, initial=True)) if _np.size(a) else True


@implements("isclose")
def f_isclose(a, b, rtol=1e-05, atol=1e-08, equal_nan=False):
    a, b = _obj(a), _obj(b)
    d = _elementwise(e_abs, a - b)
    lim = atol + rtol * _elementwise(e_abs, b)
    return _tidy(_elementwise(_cmp(_op.le), d, lim))


@implements("allclose")
def f_allclose(a, b, rtol=1e-05, atol=1e-08, equal_nan=False):
    r = f_isclose(a, b, rtol, atol)
    if isinstance(r, _nd):
        return bool(_reduce(e_and, r, None, False, initial=True))
    return bool(r)


@implements("arctan2")
def f_arctan2(y, x, **k):
    return _elementwise(_angle.arctan2, _obj(y), _obj(x))


@implements("arcsin")
def f_arcsin(x, **k):
    return _elementwise(_angle.arcsin, _obj(x))


@implements("arccos")
def f_arccos(x, **k):
    return _elementwise(_angle.arccos, _obj(x))


@implements("sin")
def f_sin(x, **k):
    return _elementwise(_angle.sin, _obj(x))


@implements("cos")
def f_cos(x, **k):
    return _elementwise(_angle.cos, _obj(x))


@implements("linalg.norm")
def f_norm(x, ord=None, axis=None, keepdims=False):
    if ord not in (None, 2, "fro"):
        raise NotEncodable("norm ord=%r" % (ord,))
    x = _obj(x)
    sq = f_sum(x * x, axis, keepdims=keepdims)
    return _elementwise(e_sqrt, sq) if isinstance(sq, _nd) else e_sqrt(sq)


def _det(a):
    k = a.shape[0]
    if k == 1:
        return a[0, 0]
    if k == 2:
        return a[0, 0] * a[1, 1] - a[0, 1] * a[1, 0]
    s = 0
    for j in range(k):
        if not is_sym(a[0, j]) and a[0, j] == 0:
            continue
        minor = _np.delete(_np.delete(a, 0, 0), j, 1)
        s = s + ((-1) ** j) * a[0, j] * _det(minor)
    return s


@implements("linalg.det")
def f_det(a):
    a = base(_np.asarray(a, dtype=object))
    if a.ndim == 2:
        return _det(a)
    out = _np.empty(a.shape[:-2], dtype=object)
    for idx in _np.ndindex(*out.shape):
        out[idx] = _det(a[idx])
    return wrap(out)


@implements("linalg.inv")
def f_inv(m):
    """exact inverse by the adjugate (n <= 4); det != 0 becomes a definedness side condition"""
    m = base(_np.asarray(m, dtype=object))
    if m.ndim != 2:
        out = _np.empty(m.shape, dtype=object)
        for idx in _np.ndindex(*m.shape[:-2]):
            out[idx] = base(f_inv(m[idx]))
        return wrap(out)
    n = m.shape[0]
    # affine 4x4 with last row (0,0,0,1): invert the 3x3 block (keeps terms small)
    if n == 4 and all((not is_sym(v)) for v in m[3]) and list(m[3]) == [0, 0, 0, 1]:
        Ri = base(f_inv(m[:3, :3]))
        t = m[:3, 3]
        out = _np.empty((4, 4), dtype=object)
        out[:3, :3] = Ri
        out[:3, 3] = -_np.dot(Ri, t)
        out[3] = [0, 0, 0, 1]
        return wrap(out)
    d = _det(m)
    out = _np.empty((n, n), dtype=object)
    for i in range(n):
        for j in range(n):
            minor = _np.delete(_np.delete(m, i, 0), j, 1)
            c = ((-1) ** (i + j)) * _det(minor) if n > 1 else 1
            out[j, i] = c / d
    return wrap(out)


@implements("einsum")
def f_einsum(subscripts, *ops, **k):
    ops = [base(_np.asarray(o, dtype=object)) if has_sym(o) else _np.asarray(o) for o in ops]
    ins, outs = subscripts.replace(" ", "").split("->") if "->" in subscripts else (subscripts.replace(" ", ""), None)
    ins = ins.split(",")
    if outs is None:
        letters = "".join(ins)
        outs = "".join(sorted(c for c in set(letters) if letters.count(c) == 1))
    dims = {}
    for spec, o in zip(ins, ops):
        for c, n in zip(spec, o.shape):
            dims[c] = n
    sum_idx = [c for c in dims if c not in outs]
    out = _np.empty([dims[c] for c in outs], dtype=object)
    import itertools

    for oi in _np.ndindex(*out.shape):
        env = dict(zip(outs, oi))
        acc = 0
        for si in itertools.product(*[range(dims[c]) for c in sum_idx]):
            env.update(zip(sum_idx, si))
            term = 1
            for spec, o in zip(ins, ops):
                term = term * o[tuple(env[c] for c in spec)]
            acc = acc + term
        out[oi] = acc
    if out.ndim == 0:
        return out[()]
    return wrap(out)


@implements("unique")
def f_unique(ar, return_index=False, return_inverse=False, return_counts=False, axis=None, **k):
    ar = base(_np.asarray(ar, dtype=object))
    if axis is not None:
        raise NotEncodable("unique axis")
    flat = ar.reshape(-1)
    order = _argsort1(list(flat))
    srt = flat[order]
    n = len(srt)
    mask = _np.ones(n, dtype=bool)
    for i in range(1, n):
        mask[i] = bool(srt[i] != srt[i - 1])
    res = [wrap(srt[mask])]
    order = _np.array(order, dtype=_np.int64)
    if return_index:
        res.append(order[mask])
    if return_inverse:
        imask = _np.cumsum(mask) - 1
        inv = _np.empty(n, dtype=_np.intp)
        inv[order] = imask
        res.append(inv.reshape(ar.shape))
    if return_counts:
        idx = _np.concatenate(_np.nonzero(mask) + ([n],))
        res.append(_np.diff(idx))
    return res[0] if len(res) == 1 else tuple(res)


@implements("repeat")
def f_repeat(a, repeats, axis=None):
    if isinstance(repeats, _nd) and rd(repeats) == object:
        repeats = concretize_ints(repeats)
    elif isinstance(repeats, Sym):
        repeats = int(repeats)
    elif isinstance(repeats, (list, tuple)) and has_sym(repeats):
        repeats = concretize_ints(_np.array(repeats, dtype=object))
    r = _np.repeat(base(a) if isinstance(a, _nd) else (_np.array(_strip_deep(a), dtype=object) if has_sym(a) else a), repeats, axis=axis)
    return set_sd(wrap(r), sd_of(a) if isinstance(a, _nd) else None) if rd(r) == object else r


@implements("bincount")
def f_bincount(x, weights=None, minlength=0):
    xs = concretize_ints(x)
    if weights is None:
        return _np.bincount(xs, minlength=minlength)
    w = base(_np.asarray(weights, dtype=object))
    n = max(int(xs.max()) + 1 if len(xs) else 0, minlength)
    out = _np.empty(n, dtype=object)
    out[...] = 0
    for i, v in zip(xs, w):
        out[i] = out[i] + v
    return wrap(out)


@implements("searchsorted")
def f_searchsorted(a, v, side="left", sorter=None):
    a = list(base(_np.asarray(a, dtype=object)))
    scalar = _np.ndim(v) == 0
    vs = [v] if scalar else list(base(_np.asarray(v, dtype=object)).reshape(-1))
    out = []
    for x in vs:
        pos = 0
        for y in a:
            c = (y < x) if side == "left" else (y <= x)
            if bool(c):
                pos += 1
            else:
                break
        out.append(pos)
    if scalar:
        return out[0]
    return _np.array(out, dtype=_np.intp).reshape(_np.shape(v))


@implements("cross")
def f_cross(a, b, axis=-1, **k):
    a, b = _obj(_np.asanyarray(a) if not isinstance(a, _nd) else a), _obj(_np.asanyarray(b) if not isinstance(b, _nd) else b)
    a = _np.asarray(a, dtype=object)
    b = _np.asarray(b, dtype=object)
    if a.shape[-1] == 2 and b.shape[-1] == 2:
        return wrap(_np.asarray(a[..., 0] * b[..., 1] - a[..., 1] * b[..., 0]))
    a0, a1, a2 = a[..., 0], a[..., 1], a[..., 2]
    b0, b1, b2 = b[..., 0], b[..., 1], b[..., 2]
    out = _np.stack(_np.broadcast_arrays(_np.asarray(a1 * b2 - a2 * b1, dtype=object), _np.asarray(a2 * b0 - a0 * b2, dtype=object), _np.asarray(a0 * b1 - a1 * b0, dtype=object)), axis=-1)
    return wrap(out)


@implements("linalg.multi_dot")
def f_multi_dot(arrays, out=None):
    return functools.reduce(f_dot, arrays)


@implements("dot")
def f_dot(a, b, out=None):
    r = _np.dot(_np.asarray(_obj(a), dtype=object), _np.asarray(_obj(b), dtype=object))
    return wrap(r) if isinstance(r, _nd) else r


@implements("matmul")
def f_matmul(a, b, **k):
    r = _np.matmul(_np.asarray(_obj(a), dtype=object), _np.asarray(_obj(b), dtype=object))
    return wrap(r) if isinstance(r, _nd) else r


@implements("array_str", "array_repr", "array2string")
def f_str(a, *args, **k):
    return "SymArray(shape=%r)" % (_np.shape(a),)


@implements("real")
def f_real(x):
    return x.copy() if isinstance(x, _nd) else x


@implements("imag")
def f_imag(x):
    return _np.zeros(_np.shape(x), dtype=_np.int64) if isinstance(x, _nd) else 0


@implements("result_type")
def f_result_type(*a):
    return _np.dtype(object)


@implements("can_cast")
def f_can_cast(*a, **k):
    return True


@implements("linspace")
def f_linspace(start, stop, num=50, endpoint=True, **k):
    num = int(num)
    div = (num - 1) if endpoint else num
    out = _np.empty(num, dtype=object)
    for i in range(num):
        out[i] = start + (stop - start) * Fraction(i, div) if div else start
    return wrap(out)


@implements("std", "var", "median", "linalg.eig", "linalg.eigh", "linalg.svd", "linalg.eigvals", "linalg.eigvalsh", "linalg.lstsq", "linalg.solve", "linalg.pinv", "linalg.matrix_rank", "linalg.qr", "linalg.cholesky", "histogram", "interp", "convolve")
def f_unsupported(*a, **k):
    raise NotEncodable("numpy function outside the encodable fragment on symbolic data")


# ---------------------------------------------------------------------------------------------
# the proxy module


class NPProxy(types.ModuleType):
    """stands in for ``np`` in the real modules while a symbolic run is active"""

    def __init__(self, real=_np, prefix=""):
        super().__init__("numpy_proxy" + prefix)
        self.__dict__["_real"] = real
        self.__dict__["_prefix"] = prefix

    def __getattr__(self, k):
        real = self.__dict__["_real"]
        v = getattr(real, k)
        prefix = self.__dict__["_prefix"]
        if isinstance(v, types.ModuleType) and k in ("linalg", "random", "ma", "fft"):
            p = NPProxy(v, prefix + k + ".")
            self.__dict__[k] = p
            return p
        if callable(v) and not isinstance(v, type) and not (isinstance(v, _np.ufunc) and (prefix + k) not in _FUNCS):
            key = prefix + k
            h = _FUNCS.get(key)

            @functools.wraps(v)
            def dispatch(*a, _key=key, _h=h, _v=v, **kw):
                st = _stub_for(_key)
                if st is not None:
                    # a contract stub planted by the unit (environment: randomness, compiled back-ends)
                    return tag(st(*a, **kw))
                if _h is not None and (_any_sym_args(a) or _any_sym_args(tuple(kw.values()))):
                    return tag(_h(*a, **kw))
                return tag(_v(*a, **kw))

            self.__dict__[k] = dispatch
            return dispatch
        return v

    # ---- creation functions (dtype tolerant)
    @staticmethod
    def _float_like(dtype):
        if dtype is None:
            return True
        try:
            return _np.dtype(dtype).kind in "fc"
        except TypeError:
            return False

    def array(self, a, dtype=None, copy=True, order="K", subok=False, ndmin=0, **kw):
        if has_sym(a):
            r = _np.array(_strip_deep(a), dtype=object, ndmin=ndmin)
            r = wrap(r.copy() if copy else r)
            if isinstance(a, _nd):
                set_sd(r, sd_of(a))
            if dtype is not None and _np.dtype(dtype) != object:
                return sym_astype(r, dtype)
            return r
        return tag(_np.array(base(a) if isinstance(a, SymArray) else a, dtype=dtype, copy=copy, order=order, subok=subok, ndmin=ndmin, **kw))

    def asarray(self, a, dtype=None, order=None, **kw):
        if has_sym(a):
            if isinstance(a, _nd):
                r = a if isinstance(a, SymArray) else wrap(base(a))
            else:
                r = wrap(_np.array(_strip_deep(a), dtype=object))
            if dtype is not None and _np.dtype(dtype) != object:
                if isinstance(a, _nd) and rd(a) == object and _np.dtype(sd_of(a) if sd_of(a) is not None else infer_sd(a)) == _np.dtype(dtype) and all(isinstance(v, Sym) and not v.is_int for v in base(a).reshape(-1)[:64]):
                    return a  # numpy does not copy when the dtype already matches: aliasing must be visible to the checks
                return sym_astype(r, dtype)
            return r
        return tag(_np.asarray(a, dtype=dtype, order=order, **kw))

    def asanyarray(self, a, dtype=None, order=None, **kw):
        if has_sym(a):
            if isinstance(a, _nd):
                if dtype is not None and _np.dtype(dtype) != object:
                    if rd(a) == object and _np.dtype(sd_of(a) if sd_of(a) is not None else infer_sd(a)) == _np.dtype(dtype) and all(isinstance(v, Sym) and not v.is_int for v in base(a).reshape(-1)[:64]):
                        return a  # no copy, like numpy (only when every element already is an exact real term: nothing to convert)
                    r = sym_astype(wrap(base(a)), dtype)
                    return r
                return a
            return self.asarray(a, dtype=dtype)
        return tag(_np.asanyarray(a, dtype=dtype, order=order, **kw))

    def ascontiguousarray(self, a, dtype=None, **kw):
        if has_sym(a):
            r = self.asarray(a, dtype=dtype)
            return wrap(_np.ascontiguousarray(base(r))) if rd(r) == object else r
        return tag(_np.ascontiguousarray(a, dtype=dtype, **kw))

    def require(self, a, dtype=None, requirements=None, **kw):
        if has_sym(a):
            return self.asarray(a, dtype=dtype)
        return _np.require(a, dtype=dtype, requirements=requirements, **kw)

    def _filled(self, shape, value, dtype):
        r = _np.empty(shape, dtype=object)
        r[...] = value
        try:
            dt = _np.dtype(_np.float64 if dtype is None else dtype)
        except TypeError:
            dt = None
        return set_sd(wrap(r), dt)

    @staticmethod
    def _int_like(dtype):
        try:
            return _np.dtype(dtype).kind in "iu"
        except TypeError:
            return False

    @staticmethod
    def _typed(r):
        """concrete arrays created by the code under test get the SymArray type so that symbolic masks / values can index them"""
        return _nd.view(r, SymArray) if core.ENGINE is not None and type(r) is _nd else r

    def zeros(self, shape, dtype=float, order="C", **kw):
        if core.ENGINE is not None and (self._float_like(dtype) or (self._int_like(dtype) and core.ENGINE.opts.get("int_zeros_object"))):
            return self._filled(shape, 0, dtype)
        return self._typed(_np.zeros(shape, dtype=dtype, order=order, **kw))

    def ones(self, shape, dtype=float, order="C", **kw):
        if core.ENGINE is not None and self._float_like(dtype):
            return self._filled(shape, 1, dtype)
        return self._typed(_np.ones(shape, dtype=dtype, order=order, **kw))

    def empty(self, shape, dtype=float, order="C", **kw):
        if core.ENGINE is not None and self._float_like(dtype):
            return self._filled(shape, 0, dtype)
        return self._typed(_np.zeros(shape, dtype=dtype, order=order, **kw))

    def full(self, shape, fill_value, dtype=None, **kw):
        if is_sym(fill_value) or (core.ENGINE is not None and (isinstance(fill_value, float) or (dtype is not None and self._float_like(dtype)))):
            return self._filled(shape, fill_value, dtype)
        return _np.full(shape, fill_value, dtype=dtype, **kw)

    def zeros_like(self, a, dtype=None, **kw):
        a = _np.asanyarray(a)
        if core.ENGINE is not None and ((dtype is None and rd(a).kind in "fO") or (dtype is not None and self._float_like(dtype))):
            return self._filled(a.shape, 0, dtype if dtype is not None else (sd_of(a) if rd(a) == object else None))
        kw.pop("subok", None)
        if rd(a) == object and dtype is None:
            return self._filled(a.shape, 0, sd_of(a))
        return self._typed(_np.zeros_like(base(a), dtype=dtype, **kw))

    def ones_like(self, a, dtype=None, **kw):
        a = _np.asanyarray(a)
        if core.ENGINE is not None and ((dtype is None and rd(a).kind in "fO") or (dtype is not None and self._float_like(dtype))):
            return self._filled(a.shape, 1, dtype)
        kw.pop("subok", None)
        return self._typed(_np.ones_like(base(a), dtype=dtype, **kw))

    def empty_like(self, a, dtype=None, **kw):
        return self.zeros_like(a, dtype=dtype)

    def full_like(self, a, fill_value, dtype=None, **kw):
        a = _np.asanyarray(a)
        if is_sym(fill_value) or (core.ENGINE is not None and rd(a).kind in "fO" and dtype is None):
            return self._filled(a.shape, fill_value, dtype)
        return _np.full_like(base(a), fill_value, dtype=dtype, **kw)

    def eye(self, n, M=None, k=0, dtype=float, **kw):
        r = _np.eye(n, M, k, dtype=dtype if not self._float_like(dtype) else _np.int64)
        if core.ENGINE is not None and self._float_like(dtype):
            return set_sd(wrap(r.astype(object)), _np.dtype(_np.float64 if dtype in (float, None) else dtype))
        return r

    def identity(self, n, dtype=float, **kw):
        return self.eye(n, dtype=dtype)

    def arange(self, *a, **kw):
        if has_sym(list(a)):
            a = [int(x) if isinstance(x, Sym) else x for x in a]
        dtype = kw.pop("dtype", None)
        r = _np.arange(*a, **kw) if dtype is None or self._float_like(dtype) else _np.arange(*a, dtype=dtype, **kw)
        return tag(r)

    def isscalar(self, x):
        return is_sym(x) or _np.isscalar(x)

    def ndim(self, x):
        if is_sym(x):
            return 0
        return _np.ndim(x)

    def shape(self, x):
        if is_sym(x):
            return ()
        return _np.shape(x)


def _strip_deep(a):
    """nested lists/tuples possibly containing SymArrays -> nested lists of scalars"""
    if isinstance(a, _nd):
        return base(a).tolist() if rd(a) == object else a.tolist()
    if isinstance(a, (list, tuple)):
        return [_strip_deep(i) for i in a]
    return a


class MathProxy(types.ModuleType):
    def __init__(self):
        super().__init__("math_proxy")

    def __getattr__(self, k):
        return getattr(_math, k)

    @staticmethod
    def sqrt(x):
        if isinstance(x, Sym):
            return x.sqrt()
        return _math.sqrt(x)

    @staticmethod
    def sin(x):
        return _angle.sin(x)

    @staticmethod
    def cos(x):
        return _angle.cos(x)

    @staticmethod
    def atan2(y, x):
        return _angle.arctan2(y, x)

    @staticmethod
    def asin(x):
        return _angle.arcsin(x)

    @staticmethod
    def acos(x):
        return _angle.arccos(x)

    @staticmethod
    def fabs(x):
        return abs(x) if is_sym(x) else _math.fabs(x)

    @staticmethod
    def isfinite(x):
        return True if is_sym(x) else _math.isfinite(x)

    @staticmethod
    def isnan(x):
        return False if is_sym(x) else _math.isnan(x)

    @staticmethod
    def floor(x):
        return int(e_floor(x)) if not isinstance(x, Sym) else e_floor(x)

    @staticmethod
    def ceil(x):
        return e_ceil(x)


def sym_float(x=0.0):
    if isinstance(x, _angle.Angle):
        return x
    if is_sym(x):
        return x if isinstance(x, Sym) else x._num()
    if isinstance(x, _nd) and rd(x) == object:
        if x.size != 1:
            raise TypeError("only length-1 arrays can be converted to Python scalars")
        v = base(x).reshape(-1)[0]
        return sym_float(v)
    if isinstance(x, Fraction):
        return x
    return builtins.float(x)


def sym_int(x=0, *a):
    if isinstance(x, Sym):
        if x.is_int:
            return x
        return e_trunc(x)
    if isinstance(x, SymBool):
        return x._num()
    if isinstance(x, _nd) and rd(x) == object and x.size == 1:
        return sym_int(base(x).reshape(-1)[0])
    return builtins.int(x, *a)


def sym_round(x, nd=None):
    if isinstance(x, Sym):
        if nd:
            k = Fraction(10) ** nd
            return core.sym_round(x * k) / k
        return core.sym_round(x)
    return builtins.round(x, nd) if nd is not None else builtins.round(x)


def sym_bool(x=False):
    return builtins.bool(x)


class _ShimMeta(type):
    def __instancecheck__(cls, inst):
        return isinstance(inst, cls._pytype)

    def __subclasscheck__(cls, sub):
        return issubclass(sub, cls._pytype)

    def __eq__(cls, other):
        return other is cls or other is cls._pytype

    def __hash__(cls):
        return hash(cls._pytype)


def _mk_type_shim(pytype, conv, dtype):
    """replacement for ``float``/``int`` in module globals: callable, usable in isinstance() and as a numpy dtype"""

    class Shim(metaclass=_ShimMeta):
        _pytype = pytype
        _conv = staticmethod(conv)

        def __new__(cls, *a, **k):
            return cls._conv(*a, **k)

    Shim.dtype = _np.dtype(dtype)
    Shim.__name__ = pytype.__name__
    return Shim


FloatShim = _mk_type_shim(builtins.float, sym_float, 'float64')
IntShim = _mk_type_shim(builtins.int, sym_int, 'int64')
Float64Shim = _mk_type_shim(_np.float64, lambda x=0.0: x if is_sym(x) else (sym_float(x) if isinstance(x, _nd) and rd(x) == object else _np.float64(x)), 'float64')

# ---------------------------------------------------------------------------------------------
# patching of the real modules

_PROXY = NPProxy()
_PROXY.__dict__["float64"] = Float64Shim
_PROXY.__dict__["float_"] = Float64Shim
for _nm in ("int32", "int64", "intp", "uint8", "uint32", "uint64", "int8", "int16", "float32", "bool_"):
    _t = getattr(_np, _nm)
    _PROXY.__dict__[_nm] = _mk_type_shim(_t, (lambda *a, _t=_t, **k: tag(_t(*a, **k))), _np.dtype(_t))
_MATH = MathProxy()

# methods planted on trimesh.caching.TrackedArray while patched (it cannot be re-based)
_TRACKED_METHODS = ["dtype", "__array_ufunc__", "__array_function__", "__getitem__", "view", "astype", "all", "any", "max", "min", "ptp", "sum", "prod", "mean",
                    "round", "clip", "argmax", "argmin", "argsort", "nonzero", "tobytes", "tolist", "copy", "__bool__", "__float__", "__deepcopy__"]


def _tracked_setitem_wrapper(orig):
    def __setitem__(self, idx, val):
        return orig(self, _conc_index(idx), val)

    return __setitem__


@contextlib.contextmanager
def patched(extra_modules=(), float_shim=True):
    """plant the proxies in every imported trimesh module (module globals ``np``, ``math``, ``float``, ``int``, ``round``)"""
    mods = [m for n, m in list(sys.modules.items()) if (n == "trimesh" or n.startswith("trimesh.")) and m is not None]
    mods += list(extra_modules)
    saved = []
    for m in mods:
        d = m.__dict__
        if d.get("np") is _np:
            saved.append((d, "np", _np))
            d["np"] = _PROXY
        if d.get("numpy") is _np:
            saved.append((d, "numpy", _np))
            d["numpy"] = _PROXY
        if d.get("math") is _math:
            saved.append((d, "math", _math))
            d["math"] = _MATH
        if float_shim and "np" in d:
            for name, shim in (("float", FloatShim), ("int", IntShim), ("round", sym_round)):
                if name not in d:
                    saved.append((d, name, None))
                    d[name] = shim
    # TrackedArray
    tracked_saved = []
    try:
        from trimesh import caching

        TA = caching.TrackedArray
        for name in _TRACKED_METHODS:
            tracked_saved.append((name, TA.__dict__.get(name, None)))
            setattr(TA, name, SymArray.__dict__[name])
        tracked_saved.append(("__setitem__", TA.__dict__.get("__setitem__")))
        TA.__setitem__ = _tracked_setitem_wrapper(TA.__dict__["__setitem__"])
    except ImportError:
        TA = None
    try:
        yield _PROXY
    finally:
        for d, k, v in saved:
            if v is None:
                d.pop(k, None)
            else:
                d[k] = v
        if TA is not None:
            for name, old in tracked_saved:
                if old is None:
                    try:
                        delattr(TA, name)
                    except AttributeError:
                        pass
                else:
                    setattr(TA, name, old)
