"""symx.run -- driver: ``python -m symx.run C03 --tier quick``

Runs every unit of the property's harness in its own process (fresh z3 context), collects verdicts,
matches reproduced violations against known_findings.json, writes evidence/<id>.json and exits
0 (held on everything explored) / 1 (``VIOLATION property=<id> replay=<path>`` printed).
"""
import argparse
import fnmatch
import glob
import importlib.util
import json
import multiprocessing as mp
import os
import sys
import time
import traceback

VERIF = os.path.dirname(os.path.dirname(os.path.abspath(__file__)))
REPO = os.environ.get("VERIF_REPO", "/repo")


def _boot():
    """trimesh must come from /repo's working tree"""
    if REPO not in sys.path:
        sys.path.insert(0, REPO)
    if VERIF not in sys.path:
        sys.path.insert(0, VERIF)
    os.environ.setdefault("TRIMESH_VERIF", "1")
    import trimesh

    assert os.path.realpath(trimesh.__file__).startswith(os.path.realpath(REPO) + os.sep), trimesh.__file__


def load_harness(prop_id):
    files = sorted(glob.glob(os.path.join(VERIF, "harness", prop_id + "_*.py")))
    if not files:
        raise SystemExit("no harness for %s" % prop_id)
    spec = importlib.util.spec_from_file_location("harness_" + prop_id, files[0])
    mod = importlib.util.module_from_spec(spec)
    sys.modules[spec.name] = mod
    spec.loader.exec_module(mod)
    return mod


def _worker(prop_id, unit_name, tier, seed, conn):
    try:
        _boot()
        import logging

        logging.disable(logging.CRITICAL)
        mod = load_harness(prop_id)
        from symx import harness

        unit = [u for u in mod.units(tier) if u.name == unit_name][0]
        if hasattr(unit, "runner"):
            res = unit.runner(prop_id, unit, tier, seed)
        else:
            res = harness.run_unit(prop_id, unit, tier, seed)
        conn.send(res)
    except BaseException as e:  # report, never hang the parent
        conn.send({"unit": unit_name, "error": "%s: %s\n%s" % (type(e).__name__, e, traceback.format_exc(limit=8)), "violations": [], "incomplete": ["worker crashed"]})
    finally:
        conn.close()


def run_units(prop_id, units, tier, seed, jobs):
    ctx = mp.get_context("spawn")
    pending = list(units)
    running = []
    results = []
    while pending or running:
        while pending and len(running) < jobs:
            u = pending.pop(0)
            parent, child = ctx.Pipe(duplex=False)
            p = ctx.Process(target=_worker, args=(prop_id, u.name, tier, seed, child), daemon=True)
            p.start()
            child.close()
            running.append((u, p, parent, time.time()))
        time.sleep(0.05)
        still = []
        for u, p, conn, t0 in running:
            hard = float(os.environ.get("VERIF_HARD_S", 0)) or getattr(u, "hard_s", None) or (u.wall_s * 2.5 + 120)
            if conn.poll():
                try:
                    results.append(conn.recv())
                except EOFError:
                    results.append({"unit": u.name, "error": "worker died", "violations": [], "incomplete": ["worker died"]})
                p.join(5)
                if p.is_alive():
                    p.terminate()
            elif not p.is_alive():
                results.append({"unit": u.name, "error": "worker exited without result (exit %s)" % p.exitcode, "violations": [], "incomplete": ["worker died"]})
            elif time.time() - t0 > hard:
                p.terminate()
                results.append({"unit": u.name, "error": "hard timeout %.0fs" % hard, "violations": [], "incomplete": ["hard timeout"]})
            else:
                still.append((u, p, conn, t0))
        running = still
    return results


def load_known(prop_id):
    path = os.path.join(VERIF, "known_findings.json")
    if not os.path.exists(path):
        return []
    with open(path) as f:
        data = json.load(f)
    return [e for e in data.get("entries", []) if e.get("property") == prop_id and e.get("kind") == "finding"]


def main(argv=None):
    ap = argparse.ArgumentParser()
    ap.add_argument("prop")
    ap.add_argument("--tier", default=os.environ.get("VERIF_TIER", "quick"), choices=["quick", "thorough"])
    ap.add_argument("--replay")
    ap.add_argument("--units", default="*")
    ap.add_argument("--jobs", type=int, default=int(os.environ.get("VERIF_JOBS", "16")))
    ap.add_argument("--no-evidence", action="store_true")
    ap.add_argument("-v", action="store_true")
    a = ap.parse_args(argv)
    seed = int(os.environ.get("VERIF_SEED", "0") or 0)
    t0 = time.time()
    _boot()
    mod = load_harness(a.prop)
    meta = getattr(mod, "META", {})
    if a.replay:
        return replay(a.prop, mod, a.replay)
    units = [u for u in mod.units(a.tier) if fnmatch.fnmatch(u.name, a.units)]
    results = run_units(a.prop, units, a.tier, seed, a.jobs)
    known = load_known(a.prop)
    viol, known_hits = [], {}
    for r in results:
        for v in r.get("violations", []):
            det = (v.get("detail") or "")
            sig = ("raised " + det[7:].split(":")[0].split()[0]) if det.startswith("raised ") else (det.split(":")[0] if det[:1].isupper() and "Error" in det.split(":")[0] else "wrong-value")
            fk = v.get("finding_key") or ("%s:%s:%s" % (v.get("key", v.get("unit")), v.get("obligation"), sig))
            v["finding_key"] = fk
            hit = [k for k in known if fnmatch.fnmatch(fk, k["key"])]
            if hit:
                known_hits.setdefault(hit[0]["key"], (hit[0], []))[1].append(v)
            else:
                viol.append(v)
    # ---- report
    agg = {k: sum(r.get(k, 0) or 0 for r in results) for k in ("paths", "completed_paths", "obligations", "discharged", "inconclusive", "queries", "forks", "index_forks", "pruned_branches", "validation_points", "validation_mismatch", "reachable_paths", "nontrivial", "states", "transitions", "traces_validated_against_impl")}
    agg["solver_time_s"] = round(sum(r.get("solver_time_s", 0) or 0 for r in results), 2)
    incomplete = []
    for r in results:
        for i in r.get("incomplete", []):
            incomplete.append("%s: %s" % (r.get("unit"), i))
        if r.get("error"):
            incomplete.append("%s: ERROR %s" % (r.get("unit"), str(r["error"])[:400]))
    for key, (entry, vs) in sorted(known_hits.items()):
        print("KNOWN-FINDING: property=%s %s [%s; %d reproduced instance(s), e.g. replay=%s]" % (a.prop, entry["what"], key, len(vs), vs[0]["replay"]))
    for v in viol:
        print("VIOLATION property=%s replay=%s" % (a.prop, v["replay"]))
        print("  unit=%s obligation=%s key=%s\n  %s" % (v["unit"], v["obligation"], v["finding_key"], (v.get("detail") or "").replace("\n", "\n  ")[:500]))
    for i in incomplete[:40]:
        print("INCONCLUSIVE: %s" % i)
    wall = time.time() - t0
    print("%s tier=%s units=%d paths=%d obligations=%d discharged=%d inconclusive=%d violations=%d known=%d queries=%d solver=%.1fs wall=%.1fs" % (
        a.prop, a.tier, len(units), agg["paths"], agg["obligations"], agg["discharged"], agg["inconclusive"], len(viol), sum(len(v[1]) for v in known_hits.values()), agg["queries"], agg["solver_time_s"], wall))
    if a.v:
        for r in results:
            print("  unit %-40s paths=%-4s obl=%-5s disch=%-5s inc=%-3s viol=%-2s wall=%s %s" % (r.get("unit"), r.get("paths"), r.get("obligations"), r.get("discharged"), r.get("inconclusive"), len(r.get("violations", [])), r.get("wall_s"), r.get("status_counts", "")))
    if not a.no_evidence and a.units == "*":
        write_evidence(a.prop, a.tier, seed, meta, units, results, agg, viol, known_hits, incomplete, wall)
    return 1 if viol else 0


def write_evidence(prop, tier, seed, meta, units, results, agg, viol, known_hits, incomplete, wall):
    level = meta.get("level", "other")
    samples = []
    for r in results:
        samples += r.get("samples", [])[:1]
    if not samples:
        samples = [{"note": "no obligation sample recorded", "units": [u.name for u in units][:5]}]
    functions = sorted({f for r in results for f in (r.get("functions") or [])})
    cov = {
        "explanation": meta.get("explanation", "") + " | this run: %d units, %d symbolic paths, %d obligations, %d discharged (unsat), %d inconclusive, %d reproduced violations (%d listed as known findings)." % (
            len(units), agg["paths"], agg["obligations"], agg["discharged"], agg["inconclusive"], len(viol) + sum(len(v[1]) for v in known_hits.values()), sum(len(v[1]) for v in known_hits.values())),
        "obligations": agg["obligations"],
        "discharged": agg["discharged"],
        "inconclusive": agg["inconclusive"],
        "evaluations": max(agg["queries"], 0),
        "distinct_nontrivial": agg["nontrivial"],
        "rule": "evaluations = SMT queries issued; a case = (symbolic path, obligation) pair; non-trivial = the path condition contains at least one free (two-sided feasible) branch decision; distinct by construction (paths are disjoint, obligation names unique per path)",
        "samples": samples[:8],
        "paths": agg["paths"],
        "completed_paths": agg["completed_paths"],
        "branch_forks": agg["forks"],
        "index_forks": agg["index_forks"],
        "pruned_infeasible_branches": agg["pruned_branches"],
        "reachability_witnesses": agg["reachable_paths"],
        "translator_validation_points": agg["validation_points"],
        "translator_validation_mismatches": agg["validation_mismatch"],
        "solver_time_s": agg["solver_time_s"],
        "queries": agg["queries"],
        "functions_encoded": functions,
        "bounds": {r.get("unit"): r.get("bounds") for r in results if r.get("bounds")},
        "sub_spaces": {r.get("unit"): r.get("subspace") for r in results if r.get("subspace")},
        "incomplete": incomplete[:60],
        "units": [{k: r.get(k) for k in ("unit", "paths", "completed_paths", "obligations", "discharged", "inconclusive", "queries", "solver_time_s", "wall_s")} for r in results],
        "known_findings_reproduced": sorted(known_hits),
        "exhaustive": False,
    }
    if level == "model_checking":
        cov["states"] = max(agg.get("states", 0), 1)
        cov["transitions"] = max(agg.get("transitions", 0), 1)
        cov["traces_validated_against_impl"] = agg.get("traces_validated_against_impl", 0)
    for r in results:
        for k, v in (r.get("extra_coverage") or {}).items():
            cov.setdefault(k, v)
    ev = {
        "property_id": prop,
        "tier": tier,
        "seed": seed,
        "level": level,
        "coverage": cov,
        "assumptions": meta.get("assumptions", []) + ["reals stand in for float64: rounding error, NaN and inf are outside every claim", "z3 (version %s) verdicts are trusted; 'unknown' is never counted as discharged" % _z3v()],
        "wall_s": round(wall, 2),
        "violations": len(viol),
    }
    os.makedirs(os.path.join(VERIF, "evidence"), exist_ok=True)
    with open(os.path.join(VERIF, "evidence", prop + ".json"), "w") as f:
        json.dump(ev, f, indent=1, default=str)


def _z3v():
    import z3

    return z3.get_version_string()


def replay(prop, mod, path):
    from symx import harness

    with open(path) as f:
        data = json.load(f)
    units = {u.name: u for t in ("quick", "thorough") for u in mod.units(t)}
    u = units.get(data["unit"])
    if u is None:
        print("unknown unit %s" % data["unit"])
        return 2
    if hasattr(u, "replayer"):
        return u.replayer(data)
    status, failed, ctx = harness.run_concrete(u, harness._from_jsonable(data["inputs"]))
    print("replay %s unit=%s status=%s" % (path, u.name, status))
    for f in failed:
        print("FAILED obligation %s: %s" % (f.name, f.detail))
    if failed:
        print("VIOLATION property=%s replay=%s" % (prop, path))
        return 1
    print("no obligation failed")
    return 0


if __name__ == "__main__":
    sys.exit(main())
