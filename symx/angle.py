"""symx.angle -- angles as points (cos, sin) of the unit circle, so that every trigonometric round trip is algebraic
and angles are compared modulo 2*pi (the notion 'describe the same rotation' needs)."""
import math

import numpy as np

import z3

from . import core
from .core import Fraction, NotEncodable, Sym, is_sym


def _num(x):
    return isinstance(x, (int, float, Fraction)) and not isinstance(x, bool)


class Angle:
    __slots__ = ("c", "s", "half")

    def __init__(self, c, s, half=None):
        self.c = c
        self.s = s
        self.half = half  # optional Angle of half this angle

    # numpy object loops / np.sin(obj) call these by name
    def sin(self):
        return self.s

    def cos(self):
        return self.c

    def tan(self):
        return self.s / self.c

    def __neg__(self):
        return Angle(self.c, -self.s, None if self.half is None else -self.half)

    def __pos__(self):
        return self

    def _const(self, o):
        """angle of a concrete number if it is a multiple of pi/2"""
        if not _num(o):
            return None
        k = float(o) / (math.pi / 2)
        if abs(k - round(k)) > 1e-12:
            raise NotEncodable("angle offset %r is not a multiple of pi/2" % (o,))
        k = int(round(k)) % 4
        return [Angle(1, 0), Angle(0, 1), Angle(-1, 0), Angle(0, -1)][k]

    def __add__(self, o):
        if not isinstance(o, Angle):
            o = self._const(o)
            if o is None:
                return NotImplemented
        return Angle(self.c * o.c - self.s * o.s, self.s * o.c + self.c * o.s)

    __radd__ = __add__

    def __sub__(self, o):
        if not isinstance(o, Angle):
            o = self._const(o)
            if o is None:
                return NotImplemented
        return self + (-o)

    def __rsub__(self, o):
        return (-self) + o

    def __mul__(self, k):
        if _num(k) and float(k) == int(k):
            k = int(k)
            if k < 0:
                return (-self) * (-k)
            r = Angle(1, 0)
            for _ in range(k):
                r = r + self
            return r
        if _num(k) and float(k) == 0.5:
            return self / 2
        raise NotEncodable("angle times %r" % (k,))

    __rmul__ = __mul__

    def __truediv__(self, k):
        if _num(k) and float(k) == 1:
            return self
        if _num(k) and float(k) == 2:
            if self.half is not None:
                return self.half
            eng = core.ENGINE
            ch, sh = eng.fresh_real("hc"), eng.fresh_real("hs")
            eng.side.append(z3.And(ch * ch + sh * sh == 1, core._to_real(core._term(self.c)) == ch * ch - sh * sh, core._to_real(core._term(self.s)) == 2 * sh * ch))
            self.half = Angle(Sym(ch), Sym(sh))
            return self.half
        raise NotEncodable("angle divided by %r" % (k,))

    def __float__(self):
        if is_sym(self.c) or is_sym(self.s):
            raise NotEncodable("float() of a symbolic angle")
        return math.atan2(float(self.s), float(self.c))

    def __bool__(self):
        # `if angle:`  <=> angle != 0 (mod 2 pi)
        return bool((self.s != 0) | (self.c != 1)) if is_sym(self.s) or is_sym(self.c) else not (self.s == 0 and self.c == 1)

    def _below(self, o):
        """principal value (-pi, pi] of the angle < eps for a small positive constant eps  (the `angle < tol` guards of the library)"""
        if isinstance(o, (int, float, Fraction)) and 0 < o < 1:
            se = Fraction(math.sin(float(o)))
            return (self.s < 0) | ((self.c > 0) & (self.s < se))
        raise NotEncodable("ordering of angles")

    def __lt__(self, o):
        return self._below(o)

    def __ge__(self, o):
        r = self._below(o)
        return (not r) if isinstance(r, (bool, np.bool_)) else ~r

    def __le__(self, o):
        raise NotEncodable("ordering of angles")

    __gt__ = __le__

    def __repr__(self):
        return "Angle(c=%r, s=%r)" % (self.c, self.s)


def arctan2(y, x):
    if isinstance(y, (float,)) and isinstance(x, (float,)):
        return math.atan2(y, x)
    sy, sx = is_sym(y), is_sym(x)
    if not sy and not sx:
        fy, fx = core.frac(y), core.frac(x)
        if fy == 0 and fx == 0:
            return Angle(1, 0)
        rho = core.ENGINE.sqrt(core._term(fx * fx + fy * fy))
        return Angle(fx / rho, fy / rho)
    zero = (y == 0) & (x == 0)
    if bool(zero):
        return Angle(1, 0)
    rho = core.ENGINE.sqrt(core._term(x * x + y * y))
    return Angle(x / rho, y / rho)


def arcsin(s):
    if isinstance(s, float):
        return math.asin(s)
    c = core.ENGINE.sqrt(core._term(1 - s * s))
    return Angle(c, s)


def arccos(c):
    if isinstance(c, float):
        return math.acos(c)
    s = core.ENGINE.sqrt(core._term(1 - c * c))
    return Angle(c, s)


def sin(a):
    if isinstance(a, Angle):
        return a.s
    if is_sym(a):
        raise NotEncodable("sin of a symbolic real")
    return math.sin(a)


def cos(a):
    if isinstance(a, Angle):
        return a.c
    if is_sym(a):
        raise NotEncodable("cos of a symbolic real")
    return math.cos(a)


# give Sym the method names numpy's object loops look up
Sym.arctan2 = lambda self, x: arctan2(self, x)
Sym.arcsin = lambda self: arcsin(self)
Sym.arccos = lambda self: arccos(self)
Sym.sin = lambda self: sin(self)
Sym.cos = lambda self: cos(self)
