"""symx.core -- symbolic scalars, path-forking engine.

The real trimesh code is executed on numpy ``object`` arrays whose elements are ``Sym`` (a z3 Int/Real
term) or ``SymBool``.  Every data dependent branch (``bool(SymBool)``) forks; exploration is
depth-first by re-execution with a recorded decision prefix.  See DESIGN.md section 3.
"""
import fractions
import math as _math
import time

import numpy as _np
import z3

Fraction = fractions.Fraction


class Abort(BaseException):
    """path cannot continue (infeasible / cap); BaseException so real code cannot swallow it"""


class NotEncodable(BaseException):
    """the code left the encodable fragment on this path"""


class PathException(BaseException):
    """the real code raised an ordinary exception on this (symbolic) path"""


ENGINE = None  # the active engine (None => concrete mode)


def engine():
    return ENGINE


# ---------------------------------------------------------------------------------------------
# conversion helpers


def is_sym(x):
    return isinstance(x, (Sym, SymBool)) or getattr(x, "_is_bv", False)


def frac(x):
    """exact rational of a concrete python / numpy number"""
    if isinstance(x, Fraction):
        return x
    if isinstance(x, (bool, _np.bool_)):
        return Fraction(int(x))
    if isinstance(x, (int, _np.integer)):
        return Fraction(int(x))
    if isinstance(x, (float, _np.floating)):
        x = float(x)
        if x != x or x in (float("inf"), float("-inf")):
            raise NotEncodable("non-finite constant %r" % x)
        return Fraction(x)
    raise NotEncodable("not a number: %r" % type(x))


def _term(x):
    """z3 arithmetic term of anything numeric"""
    if isinstance(x, Sym):
        return x.t
    if getattr(x, "_is_bv", False):
        return x.t
    if isinstance(x, SymBool):
        return z3.If(x.t, z3.IntVal(1), z3.IntVal(0))
    if isinstance(x, (bool, _np.bool_)):
        return z3.IntVal(int(x))
    if isinstance(x, (int, _np.integer)):
        return z3.IntVal(int(x))
    if isinstance(x, (float, _np.floating, Fraction)):
        f = frac(x)
        if f.denominator == 1:
            return z3.RealVal(f.numerator)
        return z3.RealVal(str(f))
    if isinstance(x, _np.ndarray) and x.ndim == 0:
        return _term(x[()])
    raise NotEncodable("term of %r" % type(x))


def _bterm(x):
    if isinstance(x, SymBool):
        return x.t
    if isinstance(x, (bool, _np.bool_)):
        return z3.BoolVal(bool(x))
    if isinstance(x, Sym):
        return x.t != 0
    if isinstance(x, (int, float, _np.integer, _np.floating)):
        return z3.BoolVal(bool(x))
    if isinstance(x, _np.ndarray) and x.ndim == 0:
        return _bterm(x[()])
    raise NotEncodable("bool term of %r" % type(x))


def _is_real(t):
    return t.sort().kind() == z3.Z3_REAL_SORT


def _to_real(t):
    return t if _is_real(t) else z3.ToReal(t)


def _const_value(x):
    """concrete python number (also for Sym numerals, so that x*0, x*1, x+0 stay small) or None"""
    if isinstance(x, (bool, _np.bool_, int, _np.integer, float, _np.floating, Fraction)):
        return x
    if isinstance(x, Sym):
        v = _numeral(x.t)
        if v is not None:
            return v if _is_real(x.t) else int(v)
    return None


def _numeral(t):
    """Fraction value of a numeral term or None"""
    if z3.is_int_value(t):
        return Fraction(t.as_long())
    if z3.is_rational_value(t):
        return Fraction(t.numerator_as_long(), t.denominator_as_long())
    return None


def _constlike(t):
    if _numeral(t) is not None:
        return True
    return z3.is_app(t) and t.decl().kind() == z3.Z3_OP_TO_REAL and _numeral(t.arg(0)) is not None


def mk(t):
    """wrap a z3 arithmetic term; numerals become python numbers (keeps terms small)"""
    v = _numeral(t)
    if v is not None:
        if v.denominator == 1 and not _is_real(t):
            return int(v)
        return v
    return Sym(t)


class Sym:
    """symbolic number (z3 Int or Real)"""

    __slots__ = ("t", "shift")

    def __init__(self, t):
        self.shift = None
        # fold constant sub-terms (pinned runs operate on numerals only)
        if t.num_args() and all(_constlike(c) for c in t.children()):
            t = z3.simplify(t)
        self.t = t

    # -- arithmetic
    def _coerce(self, o):
        try:
            return _term(o)
        except NotEncodable:
            return None

    @staticmethod
    def _lift(o):
        """python sequences met by a symbolic scalar behave like numpy arrays (as they do for numpy scalars)"""
        if isinstance(o, (list, tuple)):
            from . import nparr

            return nparr.wrap(_np.array(o, dtype=object))
        return None

    def __add__(s, o):
        if isinstance(o, Sym) and _numeral(o.t) is None:
            sv = _const_value(s)
            if sv is not None:
                return o.__radd__(sv)
        c = _const_value(o)
        if c is not None and c == 0 and not isinstance(o, (float, _np.floating)) and not (isinstance(o, Sym) and _is_real(o.t) and not _is_real(s.t)):
            return s
        ot = s._coerce(o)
        if ot is None:
            lo = s._lift(o)
            return NotImplemented if lo is None else lo + s
        return Sym(s.t + ot)

    def __radd__(s, o):
        c = _const_value(o)
        if c is not None and c == 0:
            return s if not (isinstance(o, (float, _np.floating)) and not _is_real(s.t)) else Sym(_to_real(s.t))
        ot = s._coerce(o)
        if ot is None:
            lo = s._lift(o)
            return NotImplemented if lo is None else lo + s
        return Sym(ot + s.t)

    def __sub__(s, o):
        if isinstance(o, Sym) and _numeral(o.t) is None:
            sv = _const_value(s)
            if sv is not None:
                return o.__rsub__(sv)
        c = _const_value(o)
        if c is not None and c == 0 and not isinstance(o, (float, _np.floating)) and not (isinstance(o, Sym) and _is_real(o.t) and not _is_real(s.t)):
            return s
        ot = s._coerce(o)
        if ot is None:
            lo = s._lift(o)
            return NotImplemented if lo is None else -(lo - s)
        return Sym(s.t - ot)

    def __rsub__(s, o):
        ot = s._coerce(o)
        if ot is None:
            lo = s._lift(o)
            return NotImplemented if lo is None else lo - s
        c = _const_value(o)
        if c is not None and c == 0:
            return Sym(-s.t)
        return Sym(ot - s.t)

    def __mul__(s, o):
        if isinstance(o, Sym) and _numeral(o.t) is None:
            sv = _const_value(s)
            if sv is not None:
                return o.__rmul__(sv)
        c = _const_value(o)
        if c is not None:
            if c == 0:
                return s._zero()
            if c == 1 and not isinstance(o, (float, _np.floating)):
                return s
            if c == 1:
                return Sym(_to_real(s.t))
        ot = s._coerce(o)
        if ot is None:
            lo = s._lift(o)
            return NotImplemented if lo is None else lo * s
        return Sym(s.t * ot)

    def _zero(s):
        return Sym(z3.RealVal(0) if _is_real(s.t) else z3.IntVal(0))

    def __rmul__(s, o):
        c = _const_value(o)
        if c is not None:
            if c == 0:
                return s._zero()
            if c == 1:
                return s if not isinstance(o, (float, _np.floating)) else Sym(_to_real(s.t))
        ot = s._coerce(o)
        if ot is None:
            # `sequence * scalar` must fall through to sequence repetition (python asks __rmul__ first)
            return NotImplemented
        return Sym(ot * s.t)

    def __truediv__(s, o):
        if isinstance(o, Sym) and _numeral(o.t) is None:
            sv = _const_value(s)
            if sv is not None:
                return o.__rtruediv__(sv)
        c = _const_value(o)
        if c is not None:
            if c == 0:
                raise NotEncodable("division by constant zero")
            return Sym(_to_real(s.t) * _term(1 / frac(c)))
        ot = s._coerce(o)
        if ot is None:
            lo = s._lift(o)
            return NotImplemented if lo is None else (1 / lo) * s
        ENGINE.note_denominator(ot)
        return Sym(_to_real(s.t) / _to_real(ot))

    def __rtruediv__(s, o):
        ot = s._coerce(o)
        if ot is None:
            lo = s._lift(o)
            return NotImplemented if lo is None else lo / s
        ENGINE.note_denominator(s.t)
        c = _const_value(o)
        if c is not None and c == 0:
            return Sym(z3.RealVal(0))
        return Sym(_to_real(ot) / _to_real(s.t))

    def __floordiv__(s, o):
        c = _const_value(o)
        if c is None or int(c) != c or c <= 0:
            raise NotEncodable("floordiv by non constant / non positive")
        if _is_real(s.t):
            return Sym(z3.ToReal(z3.ToInt(s.t / _term(c))))
        return Sym(s.t / z3.IntVal(int(c)))  # z3 int div == floor for positive divisor

    def __mod__(s, o):
        c = _const_value(o)
        if c is None or int(c) != c or c <= 0 or _is_real(s.t):
            raise NotEncodable("mod")
        return Sym(s.t % z3.IntVal(int(c)))

    def __neg__(s):
        return Sym(-s.t)

    def __pos__(s):
        return s

    def __abs__(s):
        return Sym(z3.If(s.t >= 0, s.t, -s.t))

    def __pow__(s, o):
        c = _const_value(o)
        if c is None:
            raise NotEncodable("symbolic exponent")
        if float(c) == int(c):
            n = int(c)
            r = None
            for _ in range(abs(n)):
                r = s.t if r is None else r * s.t
            if n == 0:
                return 1
            if n > 0:
                return Sym(r)
            ENGINE.note_denominator(s.t)
            return Sym(1 / _to_real(r))
        if float(c) == 0.5:
            return s.sqrt()
        if float(c) == -0.5:
            return 1 / s.sqrt()
        raise NotEncodable("pow %r" % (c,))

    def __rpow__(s, o):
        raise NotEncodable("symbolic exponent")

    def sqrt(s):
        return ENGINE.sqrt(s.t)

    def cbrt(s):
        return ENGINE.cbrt(s.t)

    def conjugate(s):
        return s

    def to_bv(s, signed=True):
        """Int-sorted value as a 64-bit machine word (wraps like numpy)"""
        if _is_real(s.t):
            raise NotEncodable("bit operation on a real")
        return SymBV(z3.Int2BV(s.t, 64), signed)

    # Bit operations on unbounded (Int-sorted) values keep integer arithmetic where that is exactly what numpy computes:
    #   x << k  ==  x * 2^k            provided 0 <= x * 2^k < 2^64   (checked with the solver on the current path)
    #   a ^ (b << k) == a | (b << k) == a + b * 2^k   provided 0 <= a < 2^k and b >= 0 (disjoint bits; checked likewise)
    def __lshift__(s, o):
        if _is_real(s.t) or not isinstance(o, (int, _np.integer)):
            raise NotEncodable("shift")
        k = int(o)
        r = Sym(s.t * (1 << k)) if k else Sym(s.t)
        if not ENGINE.must_hold(z3.And(s.t >= 0, s.t * (1 << k) < (1 << 64))):
            raise NotEncodable("left shift may leave the 64-bit range")
        r.shift = k
        return r

    def __rshift__(s, o):
        raise NotEncodable("right shift of an unbounded integer")

    def _disjoint_add(s, o):
        if isinstance(o, (int, _np.integer)) and not isinstance(o, bool):
            if int(o) == 0:
                return s
            o = Sym(z3.IntVal(int(o)))
        if not isinstance(o, Sym) or _is_real(s.t) or _is_real(o.t):
            raise NotEncodable("bit operation")
        hi, lo = (s, o) if (s.shift or 0) >= (o.shift or 0) else (o, s)
        if not hi.shift:
            raise NotEncodable("xor/or of unbounded integers that are not a shifted lane")
        k = hi.shift
        if not ENGINE.must_hold(z3.And(lo.t >= 0, lo.t < (1 << k), hi.t >= 0)):
            raise NotEncodable("xor/or operands may overlap")
        return Sym(lo.t + hi.t)

    def __xor__(s, o):
        return s._disjoint_add(o)

    __rxor__ = __xor__
    __or__ = __xor__
    __ror__ = __xor__

    def __and__(s, o):
        raise NotEncodable("bitwise and of unbounded integers")

    __rand__ = __and__

    # numpy object loops call these methods by name
    def floor(s):
        return Sym(z3.ToInt(s.t)) if _is_real(s.t) else s

    def ceil(s):
        return Sym(-z3.ToInt(-s.t)) if _is_real(s.t) else s

    def rint(s):
        return sym_round(s)

    # -- comparisons
    def _cmp(s, o, f):
        try:
            return SymBool(f(s.t, _term(o)))
        except NotEncodable:
            return NotImplemented

    def __lt__(s, o):
        return s._cmp(o, lambda a, b: a < b)

    def __le__(s, o):
        return s._cmp(o, lambda a, b: a <= b)

    def __gt__(s, o):
        return s._cmp(o, lambda a, b: a > b)

    def __ge__(s, o):
        return s._cmp(o, lambda a, b: a >= b)

    def __eq__(s, o):
        if o is None:
            return False
        return s._cmp(o, lambda a, b: a == b)

    def __ne__(s, o):
        if o is None:
            return True
        return s._cmp(o, lambda a, b: a != b)

    def __hash__(s):
        # structural hash of the term: equal terms hash equal (used only for staleness keys)
        return s.t.hash()

    def __float__(s):
        v = _numeral(s.t)
        if v is not None:
            return float(v)
        raise NotEncodable("float() of a symbolic number")

    def __int__(s):
        v = _numeral(s.t)
        if v is not None:
            return int(v)
        if _is_real(s.t):
            raise NotEncodable("int() of a symbolic real")
        return ENGINE.concretize(s.t)

    def __index__(s):
        if _is_real(s.t):
            raise NotEncodable("index from a symbolic real")
        return ENGINE.concretize(s.t)

    def __bool__(s):
        return ENGINE.branch(s.t != 0)

    def __repr__(s):
        return "Sym(%s)" % (str(s.t).replace("\n", " ")[:80])

    def __format__(s, spec):
        # formatting (log messages) never feeds back into the computation
        v = _const_value(s)
        if v is not None and spec:
            return format(float(v), spec)
        return repr(s) if not spec else "<sym>"

    @property
    def is_int(s):
        return not _is_real(s.t)

    # numpy helpers sometimes ask for these
    @property
    def real(s):
        return s

    @property
    def imag(s):
        return 0


def sym_round(x):
    """numpy rint: round half to even; returns Int-sorted Sym"""
    if not isinstance(x, Sym):
        return round(x)
    if not _is_real(x.t):
        return x
    n = z3.ToInt(x.t)
    f = x.t - z3.ToReal(n)
    half = z3.RealVal("1/2")
    return Sym(z3.If(f < half, n, z3.If(f > half, n + 1, z3.If(n % 2 == 0, n, n + 1))))


class SymBool:
    __slots__ = ("t",)

    def __init__(self, t):
        self.t = t

    def __bool__(s):
        return ENGINE.branch(s.t)

    def __and__(s, o):
        try:
            return SymBool(z3.And(s.t, _bterm(o)))
        except NotEncodable:
            return NotImplemented

    __rand__ = __and__

    def __or__(s, o):
        try:
            return SymBool(z3.Or(s.t, _bterm(o)))
        except NotEncodable:
            return NotImplemented

    __ror__ = __or__

    def __xor__(s, o):
        try:
            return SymBool(z3.Xor(s.t, _bterm(o)))
        except NotEncodable:
            return NotImplemented

    __rxor__ = __xor__

    def __invert__(s):
        return SymBool(z3.Not(s.t))

    def __eq__(s, o):
        try:
            return SymBool(s.t == _bterm(o))
        except NotEncodable:
            return NotImplemented

    def __ne__(s, o):
        try:
            return SymBool(s.t != _bterm(o))
        except NotEncodable:
            return NotImplemented

    def __hash__(s):
        raise NotEncodable("hash of a symbolic bool")

    # arithmetic on masks (sum of a mask == count)
    def _num(s):
        return Sym(z3.If(s.t, z3.IntVal(1), z3.IntVal(0)))

    def __add__(s, o):
        return s._num() + o

    def __radd__(s, o):
        return o + s._num()

    def __mul__(s, o):
        return s._num() * o

    def __rmul__(s, o):
        return o * s._num()

    def __sub__(s, o):
        return s._num() - o

    def __rsub__(s, o):
        return o - s._num()

    def __neg__(s):
        return -s._num()

    def __index__(s):
        return int(bool(s))

    def __int__(s):
        return int(bool(s))

    def __repr__(s):
        return "SymBool(%s)" % (str(s.t).replace("\n", " ")[:80])


def mkbool(t):
    if z3.is_true(t):
        return True
    if z3.is_false(t):
        return False
    return SymBool(t)


# ---------------------------------------------------------------------------------------------


class Stats:
    def __init__(self):
        self.solver_calls = 0
        self.solver_time = 0.0
        self.forks = 0
        self.forced = 0
        self.index_forks = 0
        self.pruned = 0
        self.unknown_feas = 0


class Engine:
    """one symbolic exploration (a 'unit')"""

    opts = {}

    def __init__(self, feas_timeout_ms=2000, max_paths=2000, max_depth=4000, wall_s=600.0, seed=0):
        self.feas_timeout_ms = feas_timeout_ms
        self.max_paths = max_paths
        self.max_depth = max_depth
        self.wall_s = wall_s
        self.seed = seed
        self.stats = Stats()
        self.assume = []  # persistent per run, rebuilt by body each run
        self._fresh = 0
        self._sqrt_cache = {}
        self.incomplete = []

    # ---- per run state
    keep_forced = False
    slicing = True

    def _reset_run(self, prefix):
        self.prefix = list(prefix)
        self._npre = len(prefix)
        self._decided = {}
        self.pos = 0
        self.path = []
        self.side = []
        self.denoms = []
        self.assume = []
        self.inputs = {}
        self.model = None
        self._sqrt_cache = {}
        self._fresh = 0
        self.opaque = []

    def fresh_real(self, name):
        self._fresh += 1
        return z3.Real("%s!%d" % (name, self._fresh))

    def fresh_int(self, name):
        self._fresh += 1
        return z3.Int("%s!%d" % (name, self._fresh))

    def note_denominator(self, t):
        if _numeral(t) is None:
            self.denoms.append(t)
            self.side.append(t != 0)

    def note_int_range(self, arr, dtype):
        """values converted to a fixed width integer dtype: recorded (range is an assumption of the claim)"""
        self.int_casts = getattr(self, "int_casts", 0) + 1

    def sqrt(self, t):
        v = _numeral(t)
        if v is not None:
            if v < 0:
                raise NotEncodable("sqrt of negative constant")
            n, d = _math.isqrt(v.numerator), _math.isqrt(v.denominator)
            if n * n == v.numerator and d * d == v.denominator:
                return Sym(_term(Fraction(n, d)) if d != 1 else z3.RealVal(n))
            if self.opts.get("approx_sqrt"):
                # pinned translator-validation runs compare with float results at 1e-7: a float square root keeps every value a numeral
                return Sym(_term(Fraction(_math.sqrt(float(v)))))
        key = t.get_id()
        if key in self._sqrt_cache:
            return self._sqrt_cache[key][1]
        r = self.fresh_real("sqrt")
        self.side.append(z3.And(r * r == _to_real(t), r >= 0))
        s = Sym(r)
        self._sqrt_cache[key] = (t, s)  # keep t alive so ids are not recycled
        return s

    def cbrt(self, t):
        """real cube root: exact for perfect cubes, otherwise a fresh real r with r^3 == t"""
        v = _numeral(t)
        if v is not None:
            sg = -1 if v < 0 else 1
            a = abs(v)
            n, d = round(a.numerator ** (1.0 / 3)), round(a.denominator ** (1.0 / 3))
            for nn in (n - 1, n, n + 1):
                for dd in (d - 1, d, d + 1):
                    if dd > 0 and nn >= 0 and nn**3 == a.numerator and dd**3 == a.denominator:
                        return Sym(_term(Fraction(sg * nn, dd)))
            if self.opts.get("approx_sqrt"):
                return Sym(_term(Fraction(sg * float(a) ** (1.0 / 3))))
        key = ("cbrt", t.get_id())
        if key in self._sqrt_cache:
            return self._sqrt_cache[key][1]
        r = self.fresh_real("cbrt")
        self.side.append(r * r * r == _to_real(t))
        s = Sym(r)
        self._sqrt_cache[key] = (t, s)
        return s

    # ---- solving helpers
    def _solver(self, timeout_ms):
        s = z3.Solver()
        s.set("timeout", int(timeout_ms))
        if self.seed:
            s.set("random_seed", int(self.seed) % (2**30))
        return s

    def check_sat(self, extra, timeout_ms=None):
        """sat/unsat/unknown of assume & path & side & extra; keeps the model when sat"""
        s = self._solver(timeout_ms or self.feas_timeout_ms)
        s.add(*self.assume)
        s.add(*self.path)
        s.add(*self.side)
        s.add(*extra)
        t = time.time()
        r = str(s.check())
        self.stats.solver_calls += 1
        self.stats.solver_time += time.time() - t
        if r == "sat":
            self.model = s.model()
        return r

    def _holds_in_model(self, cond):
        if self.model is None:
            return None
        try:
            v = self.model.eval(cond, model_completion=True)
        except z3.Z3Exception:
            return None
        if z3.is_true(v):
            return True
        if z3.is_false(v):
            return False
        return None

    # ---- cone-of-influence slicing: a branch condition is checked against the constraints that (transitively) share a
    # variable with it.  unsat of the slice implies unsat of the whole path (sound pruning); sat of the slice keeps the branch.
    _vcache = {}

    def _vars(self, t):
        key = t.get_id()
        hit = self._vcache.get(key)
        if hit is not None:
            return hit[1]
        out = set()
        stack = [t]
        seen = set()
        while stack:
            x = stack.pop()
            i = x.get_id()
            if i in seen:
                continue
            seen.add(i)
            if z3.is_app(x):
                if x.num_args() == 0:
                    if x.decl().kind() == z3.Z3_OP_UNINTERPRETED:
                        out.add(i)
                else:
                    stack.extend(x.children())
        fs = frozenset(out)
        self._vcache[key] = (t, fs)
        return fs

    def _slice(self, cond):
        cons = list(self.assume) + list(self.path) + list(self.side)
        vs = [self._vars(c) for c in cons]
        need = set(self._vars(cond))
        picked = [False] * len(cons)
        changed = True
        while changed:
            changed = False
            for i, v in enumerate(vs):
                if not picked[i] and v & need:
                    picked[i] = True
                    if not v <= need:
                        need |= v
                        changed = True
        return [c for c, p in zip(cons, picked) if p]

    def _feasible(self, cond):
        if self.slicing:
            s = self._solver(self.feas_timeout_ms)
            s.add(*self._slice(cond))
            s.add(cond)
            t = time.time()
            r = str(s.check())
            self.stats.solver_calls += 1
            self.stats.solver_time += time.time() - t
        else:
            r = self.check_sat([cond])
        if r == "unknown":
            self.stats.unknown_feas += 1
        return r != "unsat"

    def must_hold(self, cond):
        """True iff cond is implied by the assumptions and the current path (solver)"""
        c = z3.simplify(cond)
        if z3.is_true(c):
            return True
        return self.check_sat([z3.Not(c)]) == "unsat"

    def add_assumption(self, cond):
        self.assume.append(cond)
        self.model = None

    def branch(self, cond):
        cond = z3.simplify(cond)
        if z3.is_true(cond):
            return True
        if z3.is_false(cond):
            return False
        # the same condition asked again on this path gets the same answer (no solver, no new prefix entry): real code often
        # evaluates one mask twice, and an 'unknown' must never let the two evaluations disagree
        hit = self._decided.get(cond.get_id())
        if hit is not None:
            return hit[1]
        d = self._branch(cond)
        self._decided[cond.get_id()] = (cond, d)
        neg = z3.simplify(z3.Not(cond))
        self._decided[neg.get_id()] = (neg, not d)
        return d

    def _branch(self, cond):
        if self.pos < len(self.prefix):
            d = self.prefix[self.pos][0]
        else:
            if len(self.prefix) >= self.max_depth:
                raise Abort("max depth")
            if time.time() > self.deadline:
                raise Abort("wall budget")
            inm = self._holds_in_model(cond)
            if inm is True:
                ft = True
                ff = self._feasible(z3.Not(cond))
            elif inm is False:
                ff = True
                ft = self._feasible(cond)
            else:
                ft = self._feasible(cond)
                ff = self._feasible(z3.Not(cond)) if ft else True
                if not ft:
                    # make sure the path itself is still feasible
                    pass
            if ft and ff:
                d = True
                self.prefix.append((True, False, None))
                self.stats.forks += 1
            elif ft or ff:
                d = ft
                self.prefix.append((d, True, None))
                self.stats.forced += 1
                self.stats.pruned += 1
            else:
                raise Abort("infeasible")
        forced_now = self.prefix[self.pos][1] is True and self.prefix[self.pos][2] is None
        self.pos += 1
        c = cond if d else z3.Not(cond)
        if forced_now and not self.keep_forced:
            # the other side was proved infeasible: c is implied by assumptions + path, adding it would only bloat the queries
            return d
        self.path.append(c)
        # keep the cached model only if it still satisfies the path
        if self.model is not None and self._holds_in_model(c) is not True:
            self.model = None
        return d

    def concretize(self, t, what="index", candidates=None):
        """fork over the feasible concrete values of an Int term (candidates: the declared finite range, if known)"""
        t = z3.simplify(t)
        if z3.is_int_value(t):
            return t.as_long()
        tried = []
        while True:
            if self.pos < len(self.prefix):
                d, forced, v = self.prefix[self.pos]
            else:
                if len(self.prefix) >= self.max_depth:
                    raise Abort("max depth")
                # pick a candidate value
                mv = None
                if candidates is not None:
                    rest = [c for c in candidates if c not in tried]
                    if not rest:
                        raise Abort("infeasible")
                    v = None
                    for c in rest:
                        if self._feasible(t == c):
                            v = c
                            break
                        tried.append(c)
                        self.path.append(t != c)
                    if v is None:
                        raise Abort("infeasible")
                    later = [c for c in rest if c != v and c not in tried]
                    other = bool(later)
                else:
                    if self.model is not None and all(self._holds_in_model(t != x) is True for x in tried):
                        mv = self.model.eval(t, model_completion=True)
                    else:
                        r = self.check_sat([])
                        if r == "sat":
                            mv = self.model.eval(t, model_completion=True)
                        elif r == "unsat":
                            raise Abort("infeasible")
                    if mv is None or not z3.is_int_value(mv):
                        raise NotEncodable("cannot concretize %s" % what)
                    v = mv.as_long()
                    other = self._feasible(t != v)
                if other:
                    d, forced = True, False
                    self.stats.forks += 1
                    self.stats.index_forks += 1
                else:
                    d, forced = True, True
                    self.stats.forced += 1
                self.prefix.append((d, forced, v))
            self.pos += 1
            if d:
                self.path.append(t == v)
                if self.model is not None and self._holds_in_model(t == v) is not True:
                    self.model = None
                return v
            self.path.append(t != v)
            tried.append(v)
            if self.model is not None and self._holds_in_model(t != v) is not True:
                self.model = None

    # ---- exploration
    def explore(self, body, on_path=None):
        """body() -> anything; returns list of PathResult"""
        global ENGINE
        prev = ENGINE
        ENGINE = self
        self.deadline = time.time() + self.wall_s
        work = [[]]
        results = []
        try:
            while work:
                if len(results) >= self.max_paths:
                    self.incomplete.append("max_paths=%d reached, %d prefixes unexplored" % (self.max_paths, len(work)))
                    break
                if time.time() > self.deadline:
                    self.incomplete.append("wall budget %.0fs reached, %d prefixes unexplored" % (self.wall_s, len(work)))
                    break
                prefix = work.pop()
                npre = len(prefix)
                self._reset_run(prefix)
                status, ret, err = "ok", None, None
                try:
                    ret = body()
                except Abort as e:
                    status, err = "abort", str(e)
                    if "infeasible" not in str(e):
                        self.incomplete.append("path aborted: %s" % e)
                except NotEncodable as e:
                    status, err = "notencodable", str(e)
                    self.incomplete.append("not encodable: %s" % e)
                except PathException as e:
                    status, err = "exception", str(e)
                for i in range(npre, len(self.prefix)):
                    d, forced, v = self.prefix[i]
                    if not forced:
                        work.append(self.prefix[:i] + [(False, "flip", v)])
                pr = PathResult(list(self.prefix), list(self.path), list(self.side), list(self.assume), ret, status, err)
                pr.inputs = dict(self.inputs)
                pr.denoms = list(self.denoms)
                if on_path is not None:
                    on_path(pr)
                results.append(pr)
        finally:
            ENGINE = prev
        return results


class PathResult:
    def __init__(self, prefix, path, side, assume, ret, status, err):
        self.prefix = prefix
        self.path = path
        self.side = side
        self.assume = assume
        self.ret = ret
        self.status = status
        self.err = err

    def signature(self):
        return "".join(("T" if d else "F") if v is None else ("[%s%d]" % ("=" if d else "!", v)) for d, f, v in self.prefix if f is not True)


# ---------------------------------------------------------------------------------------------
# machine words: 64-bit two's complement values with numpy int64 / uint64 semantics (wrap-around)


class SymBV:
    """symbolic 64-bit machine integer; `signed` tells how comparisons / conversions read the bits"""

    __slots__ = ("t", "signed")
    _is_bv = True
    W = 64

    def __init__(self, t, signed=True):
        self.t = t
        self.signed = signed

    def _o(self, o):
        if isinstance(o, SymBV):
            return o.t
        if isinstance(o, (bool, _np.bool_)):
            return z3.BitVecVal(int(o), 64)
        if isinstance(o, (int, _np.integer)):
            lo, hi = (-(1 << 63), (1 << 63) - 1) if self.signed else (0, (1 << 64) - 1)
            if type(o) is int and not (lo <= o <= hi):
                # numpy 2 refuses python ints that do not fit the array's dtype
                raise OverflowError("Python int too large to convert to C long")
            return z3.BitVecVal(int(o) % (1 << 64), 64)
        raise NotEncodable("BV operand %r" % type(o))

    def _w(self, t, o=None):
        signed = self.signed and (o.signed if isinstance(o, SymBV) else True)
        return SymBV(z3.simplify(t) if False else t, signed)

    def __add__(s, o):
        return s._w(s.t + s._o(o), o)

    __radd__ = __add__

    def __sub__(s, o):
        return s._w(s.t - s._o(o), o)

    def __rsub__(s, o):
        return s._w(s._o(o) - s.t, o)

    def __mul__(s, o):
        return s._w(s.t * s._o(o), o)

    __rmul__ = __mul__

    def __neg__(s):
        return SymBV(-s.t, s.signed)

    def __lshift__(s, o):
        return SymBV(s.t << s._o(o), s.signed)

    def __rshift__(s, o):
        return SymBV((s.t >> s._o(o)) if s.signed else z3.LShR(s.t, s._o(o)), s.signed)

    def __xor__(s, o):
        return s._w(s.t ^ s._o(o), o)

    __rxor__ = __xor__

    def __or__(s, o):
        return s._w(s.t | s._o(o), o)

    __ror__ = __or__

    def __and__(s, o):
        return s._w(s.t & s._o(o), o)

    __rand__ = __and__

    def __invert__(s):
        return SymBV(~s.t, s.signed)

    def _cmp(s, o, sf, uf, kind=""):
        if isinstance(o, (float, _np.floating)) and float(o) != int(o):
            # machine integer against a non-integral float: compare with the neighbouring integer
            o = _math.floor(o) if kind in ("gt", "le") else _math.ceil(o)
        elif isinstance(o, (float, _np.floating)):
            o = int(o)
        ot = s._o(o)
        signed = s.signed if not isinstance(o, SymBV) else (s.signed and o.signed)
        if isinstance(o, (int, _np.integer)) and not isinstance(o, (bool, _np.bool_)):
            # comparison with a python int is mathematical: handle values outside the representable range
            lo, hi = (-(1 << 63), (1 << 63) - 1) if signed else (0, (1 << 64) - 1)
            if int(o) < lo or int(o) > hi:
                return ("below" if int(o) < lo else "above")
        return SymBool(sf(s.t, ot) if signed else uf(s.t, ot))

    def __lt__(s, o):
        r = s._cmp(o, lambda a, b: a < b, z3.ULT, "lt")
        return (r == "above") if isinstance(r, str) else r

    def __le__(s, o):
        r = s._cmp(o, lambda a, b: a <= b, z3.ULE, "le")
        return (r == "above") if isinstance(r, str) else r

    def __gt__(s, o):
        r = s._cmp(o, lambda a, b: a > b, z3.UGT, "gt")
        return (r == "below") if isinstance(r, str) else r

    def __ge__(s, o):
        r = s._cmp(o, lambda a, b: a >= b, z3.UGE, "ge")
        return (r == "below") if isinstance(r, str) else r

    def __eq__(s, o):
        try:
            return SymBool(s.t == s._o(o))
        except NotEncodable:
            return NotImplemented

    def __ne__(s, o):
        try:
            return SymBool(s.t != s._o(o))
        except NotEncodable:
            return NotImplemented

    def __hash__(s):
        return s.t.hash()

    def __abs__(s):
        return SymBV(z3.If(s.t >= 0, s.t, -s.t), s.signed) if s.signed else s

    def __bool__(s):
        return ENGINE.branch(s.t != 0)

    def __index__(s):
        return ENGINE.concretize_bv(s.t, s.signed)

    __int__ = __index__

    def astype(s, dt):
        dt = _np.dtype(dt)
        if dt.itemsize != 8 or dt.kind not in "iu":
            raise NotEncodable("BV astype %s" % dt)
        return SymBV(s.t, dt.kind == "i")

    def __repr__(s):
        return "SymBV(%s,%s)" % (str(s.t).replace("\n", " ")[:60], "i" if s.signed else "u")


def _concretize_bv(self, t, signed):
    t = z3.simplify(t)
    if z3.is_bv_value(t):
        return t.as_signed_long() if signed else t.as_long()
    raise NotEncodable("symbolic machine word used as an index")


Engine.concretize_bv = _concretize_bv


class RowKey:
    """one row seen through an np.void / structured view: equal iff the rows are equal element-wise (numpy's contract
    for such views); ordered like the row tuples"""

    __slots__ = ("row",)

    def __init__(self, row):
        self.row = tuple(row)

    def _eq(self, o):
        r = True
        for a, b in zip(self.row, o.row):
            r = r & (a == b)
        return r

    def __eq__(self, o):
        if not isinstance(o, RowKey):
            return NotImplemented
        return self._eq(o)

    def __ne__(self, o):
        if not isinstance(o, RowKey):
            return NotImplemented
        r = self._eq(o)
        return (~r) if isinstance(r, SymBool) else (not r)

    def _lt(self, o):
        # lexicographic, first column most significant
        res = False
        for a, b in reversed(list(zip(self.row, o.row))):
            res = (a < b) | ((a == b) & res)
        return res

    def __lt__(self, o):
        return self._lt(o)

    def __gt__(self, o):
        return o._lt(self)

    def __le__(self, o):
        r = o._lt(self)
        return (~r) if isinstance(r, SymBool) else (not r)

    def __ge__(self, o):
        r = self._lt(o)
        return (~r) if isinstance(r, SymBool) else (not r)

    def __hash__(self):
        return hash(tuple(hash(v) for v in self.row))

    def __repr__(self):
        return "RowKey%r" % (self.row,)
