"""symx.harness -- units (one symbolic exploration each), obligations, solving, concrete replay.

A *unit body* is ordinary python that calls the real trimesh API on inputs obtained from ``ctx`` and
states obligations through ``ctx``.  The same body runs
  * symbolically (inputs are z3 terms, obligations are decided by the solver for every path), and
  * concretely (inputs are floats/ints taken from a solver model or from the translator-validation sampler,
    the unpatched float code runs, obligations are evaluated with a tolerance) -- this is the replay.
"""
import hashlib
import json
import os
import random
import time
import contextlib
import traceback

import numpy as np
import z3

from . import core, nparr

# evidence samples print formulas: keep z3's python pretty-printer from walking huge terms (a cylinder's vertex terms took minutes)
z3.set_option(max_depth=8, max_args=12, max_visited=400, max_lines=6, max_width=200)
from .core import Abort, Fraction, NotEncodable, Sym, SymBool, is_sym

VERIF = os.path.dirname(os.path.dirname(os.path.abspath(__file__)))


class Reject(Exception):
    """concrete inputs do not satisfy an assumption"""


class Obligation:
    __slots__ = ("name", "prop", "pairs", "detail")

    def __init__(self, name, prop, pairs=None, detail=None):
        self.name = name
        self.prop = prop  # z3 Bool (sym) / bool (conc)
        self.pairs = pairs  # list of (got_term, exp_term) for margin models
        self.detail = detail


def _z(x):
    """z3 arith term"""
    return core._term(x)


def _zb(x):
    return core._bterm(x)


class Ctx:
    def __init__(self, mode, values=None, rng=None, unit=None, tier="quick"):
        self.mode = mode  # 'sym' | 'conc' | 'sample'
        self.sym = mode == "sym"
        self.values = values or {}
        self.rng = rng
        self.unit = unit
        self.tier = tier
        self.obligations = []
        self.observed = []
        self.inputs = {}  # name -> z3 const (sym) / value (conc)
        self.decl = []  # (name, kind, lo, hi)
        self.rtol = 1e-6
        self.atol = 1e-7
        self.notes = []
        self.pins = None  # name -> exact value for pinned symbolic runs
        self.params = {}

    # ---- inputs
    def _conc_value(self, name, kind, lo, hi):
        if name in self.values:
            v = self.values[name]
        elif self.mode == "sample":
            if kind == "real":
                a = -10.0 if lo is None else float(lo)
                b = 10.0 if hi is None else float(hi)
                # rationals with small denominators: exact in both float and z3
                v = Fraction(self.rng.randint(int(a * 64), int(b * 64)), 64)
                v = min(max(v, Fraction(a)), Fraction(b))
            elif kind == "int":
                a = -8 if lo is None else int(lo)
                b = 8 if hi is None else int(hi)
                v = self.rng.randint(a, b)
            else:
                v = bool(self.rng.getrandbits(1))
            self.values[name] = v
        else:
            # not mentioned by the model: any value inside the bounds
            if kind == "bool":
                v = False
            else:
                v = 0
                if lo is not None and v < lo:
                    v = lo
                if hi is not None and v > hi:
                    v = hi
            self.values[name] = v
        return v

    def real(self, name, lo=None, hi=None):
        self.decl.append((name, "real", lo, hi))
        if self.sym:
            if self.pins is not None:
                v = self.pins[name]
                self.inputs[name] = v
                return Sym(core._term(Fraction(v)))
            x = z3.Real(name)
            self.inputs[name] = x
            eng = core.ENGINE
            eng.inputs[name] = x
            if lo is not None:
                eng.add_assumption(x >= _z(lo))
            if hi is not None:
                eng.add_assumption(x <= _z(hi))
            return Sym(x)
        v = self._conc_value(name, "real", lo, hi)
        self.inputs[name] = v
        return float(v)

    def int(self, name, lo=None, hi=None):
        self.decl.append((name, "int", lo, hi))
        if self.sym:
            if self.pins is not None:
                v = int(self.pins[name])
                self.inputs[name] = v
                return v
            x = z3.Int(name)
            self.inputs[name] = x
            eng = core.ENGINE
            eng.inputs[name] = x
            if lo is not None:
                eng.add_assumption(x >= int(lo))
            if hi is not None:
                eng.add_assumption(x <= int(hi))
            return Sym(x)
        v = int(self._conc_value(name, "int", lo, hi))
        self.inputs[name] = v
        return v

    def bool(self, name):
        self.decl.append((name, "bool", None, None))
        if self.sym:
            if self.pins is not None:
                v = bool(self.pins[name])
                self.inputs[name] = v
                return v
            x = z3.Bool(name)
            self.inputs[name] = x
            core.ENGINE.inputs[name] = x
            return SymBool(x)
        v = bool(self._conc_value(name, "bool", None, None))
        self.inputs[name] = v
        return v

    def reals(self, name, shape, lo=None, hi=None):
        shape = (shape,) if isinstance(shape, int) else tuple(shape)
        a = np.empty(shape, dtype=object)
        for idx in np.ndindex(*shape):
            a[idx] = self.real(name + "_" + "_".join(map(str, idx)), lo, hi)
        if self.sym:
            return nparr.set_sd(nparr.wrap(a), np.float64)
        return a.astype(np.float64)

    def ints(self, name, shape, lo=None, hi=None):
        shape = (shape,) if isinstance(shape, int) else tuple(shape)
        a = np.empty(shape, dtype=object)
        for idx in np.ndindex(*shape):
            a[idx] = self.int(name + "_" + "_".join(map(str, idx)), lo, hi)
        if self.sym:
            return nparr.set_sd(nparr.wrap(a), np.int64)
        return a.astype(np.int64)

    def bv(self, name):
        """an arbitrary 64-bit machine integer (int64 semantics)"""
        self.decl.append((name, "bv", None, None))
        if self.sym:
            if self.pins is not None:
                v = int(self.pins[name])
                self.inputs[name] = v
                return v
            x = z3.BitVec(name, 64)
            self.inputs[name] = x
            core.ENGINE.inputs[name] = x
            return core.SymBV(x, True)
        if name in self.values:
            v = int(self.values[name])
        elif self.mode == "sample":
            r = self.rng
            v = r.choice([r.randint(-5, 5), r.randint(-(1 << 63), (1 << 63) - 1), (1 << r.randint(1, 62)) + r.randint(-2, 2), -(1 << r.randint(1, 62)) + r.randint(-2, 2)])
            self.values[name] = v
        else:
            v = 0
            self.values[name] = v
        self.inputs[name] = v
        return int(v)

    def bvs(self, name, shape):
        shape = (shape,) if isinstance(shape, int) else tuple(shape)
        a = np.empty(shape, dtype=object)
        for idx in np.ndindex(*shape):
            a[idx] = self.bv(name + "_" + "_".join(map(str, idx)))
        if self.sym:
            return nparr.set_sd(nparr.wrap(a), np.int64)
        return a.astype(np.int64)

    def bools(self, name, shape):
        shape = (shape,) if isinstance(shape, int) else tuple(shape)
        a = np.empty(shape, dtype=object)
        for idx in np.ndindex(*shape):
            a[idx] = self.bool(name + "_" + "_".join(map(str, idx)))
        if self.sym:
            return nparr.set_sd(nparr.wrap(a), bool)
        return a.astype(bool)

    def angle(self, name, half=False, kind="circle"):
        """an arbitrary angle: a point (c, s) of the unit circle (symbolic run) / a float (concrete run);
        half=True parametrises by the half angle so that angle/2 stays algebraic.
        kind="tan": rational parametrisation c=(1-t^2)/(1+t^2), s=2t/(1+t^2) (every angle except pi) -- no constraint, identities become
        rational-function identities; kind="pi": the constant pi"""
        from . import angle as A
        import math

        if kind == "pi":
            if self.sym:
                a = A.Angle(-1, 0)
                return A.Angle(1, 0, half=a) if half else a
            return 2 * math.pi if half else math.pi
        if kind == "tan":
            t = self.real(name + "_t", -1000, 1000)
            if self.sym:
                c, s = (1 - t * t) / (1 + t * t), 2 * t / (1 + t * t)
                a = A.Angle(c, s)
                return A.Angle(c * c - s * s, 2 * s * c, half=a) if half else a
            th = 2 * math.atan(t)
            return 2 * th if half else th

        c = self.real(name + "_c", -1, 1)
        s = self.real(name + "_s", -1, 1)
        if self.sym:
            if self.pins is None:
                core.ENGINE.add_assumption(c.t * c.t + s.t * s.t == 1)
            else:
                # pinned exact run: project the sampled point onto the circle rationally (stereographic)
                c, s = _project(self.pins[name + "_c"], self.pins[name + "_s"])
                c, s = Sym(core._term(c)), Sym(core._term(s))
            a = A.Angle(c, s)
            if half:
                return A.Angle(c * c - s * s, 2 * s * c, half=a)
            return a
        if self.mode == "sample":
            cc, ss = _project(self.values[name + "_c"], self.values[name + "_s"])
            c, s = float(cc), float(ss)
        import math

        th = math.atan2(s, c)
        return 2 * th if half else th

    def eq_angle(self, name, got, exp):
        """equal modulo 2 pi"""
        from . import angle as A
        import math

        if self.sym:
            g = got if isinstance(got, A.Angle) else A.Angle(Fraction(math.cos(got)).limit_denominator(10**12), Fraction(math.sin(got)).limit_denominator(10**12)) if got not in (0, 0.0) else A.Angle(1, 0)
            e = exp if isinstance(exp, A.Angle) else A.Angle(1, 0) if exp in (0, 0.0) else None
            self.eq(name, [g.c, g.s], [e.c, e.s])
        else:
            self.eq(name, [math.cos(got), math.sin(got)], [math.cos(exp), math.sin(exp)])

    def choice(self, name, n):
        """a symbolic Int in [0,n) resolved to a concrete python int by forking"""
        v = self.int(name, 0, n - 1)
        if isinstance(v, Sym):
            return core.ENGINE.concretize(v.t, what=name, candidates=list(range(n)))
        return int(v)

    def choose_bool(self, name):
        return bool(self.bool(name))

    # ---- assumptions
    def assume(self, cond):
        if self.sym:
            if isinstance(cond, (bool, np.bool_)):
                if not cond:
                    raise Abort("infeasible")
                return
            core.ENGINE.add_assumption(_zb(cond))
            return
        if isinstance(cond, np.ndarray):
            cond = bool(cond.all())
        if not cond:
            raise Reject()

    # ---- obligations
    def true(self, name, cond, detail=None):
        if self.sym:
            if isinstance(cond, np.ndarray):
                cond = nparr._reduce(nparr.e_and, cond, None, False, initial=True)
            self.obligations.append(Obligation(name, _zb(cond), None, detail))
        else:
            if isinstance(cond, np.ndarray):
                cond = bool(cond.all())
            self.obligations.append(Obligation(name, bool(cond), None, detail))

    def eq(self, name, got, exp, rtol=None, atol=None):
        """got == exp element-wise (exact over the reals; within rtol/atol in the concrete replay)"""
        if self.sym:
            g = np.asarray(nparr.base(got) if isinstance(got, np.ndarray) else got, dtype=object)
            e = np.asarray(nparr.base(exp) if isinstance(exp, np.ndarray) else exp, dtype=object)
            if g.shape != e.shape:
                try:
                    g, e = np.broadcast_arrays(g, e)
                except ValueError:
                    self.obligations.append(Obligation(name, z3.BoolVal(False), None, "shape %r vs %r" % (g.shape, e.shape)))
                    return
            conj, pairs = [], []
            for a, b in zip(g.reshape(-1), e.reshape(-1)):
                if isinstance(a, (SymBool, bool, np.bool_)) or isinstance(b, (SymBool, bool, np.bool_)):
                    conj.append(_zb(a) == _zb(b))
                    continue
                if getattr(a, "_is_bv", False) or getattr(b, "_is_bv", False):
                    bvv = a if getattr(a, "_is_bv", False) else b
                    conj.append(bvv._o(a) == bvv._o(b))
                    continue
                if not is_sym(a) and not is_sym(b):
                    if core.frac(a) != core.frac(b):
                        conj.append(z3.BoolVal(False))
                        pairs.append((_z(a), _z(b)))
                    continue
                ta, tb = _z(a), _z(b)
                conj.append(ta == tb)
                pairs.append((ta, tb))
            self.observed.append((name, g.copy()))
            self.obligations.append(Obligation(name, z3.And(*conj) if conj else z3.BoolVal(True), pairs))
        else:
            g = np.asarray(got)
            e = np.asarray(exp)
            self.observed.append((name, g.copy()))
            if g.shape != e.shape:
                try:
                    g, e = np.broadcast_arrays(g, e)
                except ValueError:
                    self.obligations.append(Obligation(name, False, None, "shape %r vs %r" % (g.shape, e.shape)))
                    return
            if g.dtype.kind in "biu" and e.dtype.kind in "biu":
                ok = bool((g == e).all())
            else:
                g = g.astype(np.float64)
                e = e.astype(np.float64)
                ok = bool(np.allclose(g, e, rtol=self.rtol if rtol is None else rtol, atol=self.atol if atol is None else atol))
            det = None
            if not ok:
                det = "got %s expected %s" % (np.array2string(g, precision=9, threshold=30), np.array2string(e, precision=9, threshold=30))
            self.obligations.append(Obligation(name, ok, None, det))

    def le(self, name, a, b):
        if self.sym:
            self.true(name, nparr._elementwise(lambda x, y: x <= y, a, b) if isinstance(a, np.ndarray) or isinstance(b, np.ndarray) else (a <= b))
        else:
            self.true(name, np.all(np.asarray(a, dtype=float) <= np.asarray(b, dtype=float) + self.atol), "a=%r b=%r" % (a, b))

    def close(self, name, got, exp, tol):
        """|got-exp| <= tol is the property itself (tolerant by statement)"""
        if self.sym:
            d = np.asarray(nparr.base(got) if isinstance(got, np.ndarray) else got, dtype=object) - np.asarray(nparr.base(exp) if isinstance(exp, np.ndarray) else exp, dtype=object)
            conj = []
            for v in np.asarray(d, dtype=object).reshape(-1):
                if is_sym(v):
                    conj.append(z3.And(v.t <= _z(tol), v.t >= -_z(tol)))
                elif abs(core.frac(v)) > core.frac(tol):
                    conj.append(z3.BoolVal(False))
            self.obligations.append(Obligation(name, z3.And(*conj) if conj else z3.BoolVal(True)))
        else:
            ok = bool(np.all(np.abs(np.asarray(got, dtype=float) - np.asarray(exp, dtype=float)) <= float(tol) * (1 + 1e-9) + 1e-12))
            self.obligations.append(Obligation(name, ok, None, None if ok else "got %r exp %r tol %r" % (got, exp, tol)))

    def read(self, name, fn, exp):
        """one guarded read of the API under test: `fn()` must not raise and must equal `exp` (both concrete per path)"""
        try:
            got = fn()
        except (Abort, NotEncodable, core.PathException):
            raise
        except self.unit.raises if self.unit is not None else ():
            raise
        except Exception as e:
            self.obligations.append(Obligation(name, z3.BoolVal(False) if self.sym else False, None, "raised %s: %s @ %s" % (type(e).__name__, e, _where(e))))
            return None
        self.concrete_equal(name, got, exp)
        return got

    def concrete_equal(self, name, got, exp):
        """both sides are concrete on every path (topology, counts)"""
        ok = _deep_equal(got, exp)
        self.obligations.append(Obligation(name, z3.BoolVal(ok) if self.sym else ok, None, None if ok else "got %r expected %r" % (_short(got), _short(exp))))

    def note(self, s):
        self.notes.append(s)


def _project(c, s):
    """rational point of the unit circle from an arbitrary rational pair (stereographic)"""
    c, s = Fraction(c), Fraction(s)
    t = s / (1 + c) if c != -1 else Fraction(1)
    return (1 - t * t) / (1 + t * t), 2 * t / (1 + t * t)


def _short(x):
    s = repr(x)
    return s if len(s) < 300 else s[:300] + "..."


def _deep_equal(a, b):
    if isinstance(a, np.ndarray) or isinstance(b, np.ndarray):
        a, b = np.asarray(a), np.asarray(b)
        return a.shape == b.shape and bool((a == b).all())
    if isinstance(a, (list, tuple)) and isinstance(b, (list, tuple)):
        return len(a) == len(b) and all(_deep_equal(x, y) for x, y in zip(a, b))
    return a == b


# ---------------------------------------------------------------------------------------------


class Unit:
    def __init__(self, name, fn, tiers=("quick", "thorough"), params=None, feas_ms=1000, ob_ms=20000, max_paths=400, wall_s=240,
                 functions=(), bounds="", subspace="", shim=True, group=True, samples=2, raises=(), key=None, expect_paths=1, opts=None):
        self.name = name
        self.fn = fn
        self.tiers = tiers
        self.params = params or {}
        self.feas_ms = feas_ms
        self.ob_ms = ob_ms
        self.max_paths = max_paths
        self.wall_s = wall_s
        self.functions = list(functions)
        self.bounds = bounds
        self.subspace = subspace
        self.shim = shim
        self.group = group
        self.samples = samples
        self.raises = tuple(raises)  # exception types the property allows the real code to raise
        self.key = key or name
        self.expect_paths = expect_paths
        self.opts = opts or {}


def _model_values(model, ctx_inputs):
    vals = {}
    for name, const in ctx_inputs.items():
        if not z3.is_expr(const):
            vals[name] = const
            continue
        v = model.eval(const, model_completion=True)
        if z3.is_bool(v):
            vals[name] = z3.is_true(v)
        elif z3.is_bv_value(v):
            vals[name] = v.as_signed_long()
        elif z3.is_int_value(v):
            vals[name] = v.as_long()
        elif z3.is_rational_value(v):
            vals[name] = Fraction(v.numerator_as_long(), v.denominator_as_long())
        elif z3.is_algebraic_value(v):
            a = v.approx(30)
            vals[name] = Fraction(a.numerator_as_long(), a.denominator_as_long())
        else:
            vals[name] = 0
    return vals


def _jsonable(vals):
    out = {}
    for k, v in vals.items():
        if isinstance(v, Fraction):
            out[k] = {"q": [str(v.numerator), str(v.denominator)], "f": float(v)}
        elif isinstance(v, (bool, np.bool_)):
            out[k] = bool(v)
        elif isinstance(v, (int, np.integer)):
            out[k] = int(v)
        else:
            out[k] = float(v)
    return out


def _from_jsonable(d):
    out = {}
    for k, v in d.items():
        if isinstance(v, dict):
            out[k] = Fraction(int(v["q"][0]), int(v["q"][1]))
        else:
            out[k] = v
    return out


def run_concrete(unit, values, tier="quick", mode="conc", rng=None):
    """run the body on the unpatched float code; returns (status, failed obligations, ctx)"""
    ctx = Ctx(mode, values=dict(values), rng=rng, unit=unit, tier=tier)
    ctx.params = unit.params
    prev = core.ENGINE
    core.ENGINE = None
    try:
        with np.errstate(all="ignore"):
            unit.fn(ctx)
    except Reject:
        return "reject", [], ctx
    except unit.raises:
        return "allowed-exception", [], ctx
    except Exception as e:  # the real code raised
        tb = traceback.format_exc(limit=6)
        return "exception", [Obligation("no-exception", False, None, "%s: %s\n%s" % (type(e).__name__, e, tb))], ctx
    finally:
        core.ENGINE = prev
    failed = [o for o in ctx.obligations if o.prop is False or (not isinstance(o.prop, bool) and not bool(o.prop))]
    return "ok", failed, ctx


class UnitResult(dict):
    pass


def _solve(eng, pr, extra, timeout_ms, seed=0):
    s = z3.Solver()
    s.set("timeout", int(timeout_ms))
    if seed:
        s.set("random_seed", seed)
    s.add(*pr.assume)
    s.add(*pr.path)
    s.add(*pr.side)
    if os.environ.get("VERIF_SOM", "1") == "1":
        # sum-of-monomials normal form lets terms that cancel semantically (offsets of a translation, mirrored factors) cancel syntactically
        try:
            extra = [z3.simplify(e, som=True) for e in extra]
        except z3.Z3Exception:
            pass
    s.add(*extra)
    t = time.time()
    r = str(s.check())
    eng.stats.solver_calls += 1
    eng.stats.solver_time += time.time() - t
    return r, (s.model() if r == "sat" else None)


def _solve_sliced(eng, pr, timeout_ms, seed=0):
    base = list(pr.assume) + list(pr.path)
    need = set()
    for c in base:
        need |= eng._vars(c)
    side = [(c, eng._vars(c)) for c in pr.side]
    picked, changed = [False] * len(side), True
    while changed:
        changed = False
        for i, (c, v) in enumerate(side):
            if not picked[i] and v & need:
                picked[i] = True
                if not v <= need:
                    need |= v
                    changed = True
    s = z3.Solver()
    s.set("timeout", int(timeout_ms))
    s.add(*base)
    s.add(*[c for (c, v), p in zip(side, picked) if p])
    t = time.time()
    r = str(s.check())
    eng.stats.solver_calls += 1
    eng.stats.solver_time += time.time() - t
    return r


def _neg_with_margin(ob, margin):
    if not ob.pairs:
        return None
    m = core._term(margin)
    dis = []
    for a, b in ob.pairs:
        d = core._to_real(a) - core._to_real(b)
        dis.append(z3.Or(d > m, d < -m))
    return z3.Or(*dis)


def save_replay(prop_id, unit, values, ob_name, detail, how=""):
    os.makedirs(os.path.join(VERIF, "replays"), exist_ok=True)
    payload = {"property": prop_id, "unit": unit.name, "inputs": _jsonable(values), "obligation": ob_name, "detail": detail, "found_by": how}
    h = hashlib.sha1(json.dumps(payload, sort_keys=True).encode()).hexdigest()[:12]
    path = os.path.join(VERIF, "replays", "%s-%s.json" % (prop_id, h))
    with open(path, "w") as f:
        json.dump(payload, f, indent=1)
    return path


def run_unit(prop_id, unit, tier, seed=0):
    """symbolic exploration + solving + replay of one unit; returns a plain dict (picklable)"""
    t0 = time.time()
    res = {
        "unit": unit.name, "key": unit.key, "paths": 0, "completed_paths": 0, "obligations": 0, "discharged": 0, "inconclusive": 0,
        "violations": [], "unconfirmed": [], "incomplete": [], "queries": 0, "solver_time_s": 0.0, "samples": [], "forks": 0,
        "index_forks": 0, "pruned_branches": 0, "functions": unit.functions, "bounds": unit.bounds, "subspace": unit.subspace,
        "validation_points": 0, "validation_mismatch": 0, "reachable_paths": 0, "nontrivial": 0, "error": None,
    }
    rng = random.Random((seed or 0) * 7919 + int(hashlib.sha1(unit.name.encode()).hexdigest()[:6], 16))

    vcount = {}

    def violation(values, ob_name, detail, how):
        vcount[ob_name] = vcount.get(ob_name, 0) + 1
        if vcount[ob_name] > 2:
            res["suppressed_duplicates"] = res.get("suppressed_duplicates", 0) + 1
            return
        path = save_replay(prop_id, unit, values, ob_name, detail, how)
        res["violations"].append({"unit": unit.name, "key": unit.key, "obligation": ob_name, "detail": (detail or "")[:600], "replay": path, "found_by": how,
                                  "inputs": {k: (float(v) if not isinstance(v, (bool, int)) else v) for k, v in list(values.items())[:24]}})

    if unit.opts.get("concrete_only"):
        # a unit without symbolic inputs (a fixed catalogue instance): one concrete run of the real code, nothing for the solver to decide
        status, failed, cctx = run_concrete(unit, {}, tier, mode="sample", rng=rng)
        res["paths"] = res["completed_paths"] = res["reachable_paths"] = 1
        res["obligations"] = len(cctx.obligations) + (1 if status == "exception" else 0)
        res["discharged"] = res["obligations"] - len(failed)
        for f in failed:
            violation(cctx.values, f.name, f.detail, "concrete-instance")
        res["samples"] = [{"unit": unit.name, "obligation": o.name, "verdict": "concrete instance"} for o in cctx.obligations[:1]]
        res["wall_s"] = round(time.time() - t0, 2)
        return res
    # ---- 1. translator validation: concrete float run vs pinned exact run of the patched code
    try:
        tries = 0
        done = 0
        while done < unit.samples and tries < unit.samples * 30:
            tries += 1
            status, failed, cctx = run_concrete(unit, {}, tier, mode="sample", rng=rng)
            if status == "reject":
                continue
            done += 1
            res["validation_points"] += 1
            if failed:
                # a sampled concrete input already violates the property on the real float code
                violation(cctx.values, failed[0].name, failed[0].detail, "validation-sample")
                continue
            if status != "ok":
                continue
            # pinned symbolic run
            eng = core.Engine(feas_timeout_ms=unit.feas_ms, max_paths=50, wall_s=60, seed=seed)
            eng.opts = dict(unit.opts)
            eng.opts["approx_sqrt"] = True
            pins = dict(cctx.values)

            def pinned_body():
                ctx = Ctx("sym", unit=unit, tier=tier)
                ctx.params = unit.params
                ctx.pins = pins
                unit.fn(ctx)
                return ctx

            with (nparr.patched(float_shim=unit.shim) if not unit.opts.get("no_proxy") else contextlib.nullcontext()):
                prs = eng.explore(_guard(pinned_body, unit))
            good = [p for p in prs if p.status == "ok" and isinstance(p.ret, Ctx)]
            if not good:
                res["incomplete"].append("translator validation: pinned run did not complete (%s)" % (prs[0].err if prs else "no path"))
                continue
            pctx = good[0].ret
            mism = _compare_observed(eng, good[0], pctx, cctx)
            if mism:
                res["validation_mismatch"] += 1
                res["incomplete"].append("translator validation mismatch: %s" % mism)
    except (Abort, NotEncodable) as e:
        res["incomplete"].append("translator validation aborted: %s" % e)
    except Exception as e:
        res["incomplete"].append("translator validation error: %s: %s" % (type(e).__name__, e))

    # ---- 2. symbolic exploration
    eng = core.Engine(feas_timeout_ms=unit.feas_ms, max_paths=unit.max_paths, wall_s=unit.wall_s, seed=seed)
    eng.opts = unit.opts

    def body():
        ctx = Ctx("sym", unit=unit, tier=tier)
        ctx.params = unit.params
        unit.fn(ctx)
        return ctx

    try:
        with (nparr.patched(float_shim=unit.shim) if not unit.opts.get("no_proxy") else contextlib.nullcontext()):
            prs = eng.explore(_guard(body, unit))
    except Exception as e:
        res["error"] = "exploration crashed: %s: %s" % (type(e).__name__, e)
        res["incomplete"].append(res["error"])
        prs = []
    res["paths"] = len(prs)
    res["incomplete"] += eng.incomplete
    seen_ob = set()
    for pr in prs:
        if pr.status == "exception":
            # the real code raised on a feasible path: confirm with a model + concrete replay
            r, model = _solve(eng, pr, [], unit.ob_ms, seed)
            res["obligations"] += 1
            if r == "sat" and vcount.get("no-exception", 0) >= 2:
                res["suppressed_duplicates"] = res.get("suppressed_duplicates", 0) + 1
            elif r == "sat":
                vals = _model_values(model, pr.inputs)
                status, failed, cctx = run_concrete(unit, vals, tier)
                if failed:
                    violation(vals, failed[0].name, failed[0].detail, "symbolic-exception-path")
                else:
                    res["unconfirmed"].append({"unit": unit.name, "obligation": "no-exception", "why": "symbolic run raised %s; float replay did not" % pr.err})
                    res["incomplete"].append("exception on symbolic path not reproduced: %s" % pr.err)
            elif r == "unsat":
                res["discharged"] += 1
            else:
                res["inconclusive"] += 1
            continue
        if pr.status != "ok" or not isinstance(pr.ret, Ctx):
            continue
        ctx = pr.ret
        res["completed_paths"] += 1
        nontrivial_path = any(f is not True for d, f, v in pr.prefix)
        obs = ctx.obligations
        res["obligations"] += len(obs)
        if not obs:
            continue
        obs_all = obs
        # vacuity witness: the path is reachable
        # obligations that are literally true on this path (concrete comparisons) need no solver
        pending = []
        for o in obs:
            if z3.is_true(o.prop) or z3.is_true(z3.simplify(o.prop)):
                res["discharged"] += 1
            else:
                pending.append(o)
        obs_all, obs = obs, pending
        pending = list(obs)
        r_all = None
        if unit.group and len(obs) > 1:
            r_all, model = _solve(eng, pr, [z3.Not(z3.And(*[o.prop for o in obs]))], unit.ob_ms, seed)
            if r_all == "unsat":
                res["discharged"] += len(obs)
                pending = []
        for ob in pending:
            if vcount.get(ob.name, 0) >= 2:
                # this obligation already has reproduced counterexamples from other paths: do not pile up duplicates
                res["suppressed_duplicates"] = res.get("suppressed_duplicates", 0) + 1
                continue
            r, model = _solve(eng, pr, [z3.Not(ob.prop)], unit.ob_ms, seed)
            if r == "unsat":
                res["discharged"] += 1
                continue
            if r == "unknown":
                res["inconclusive"] += 1
                res["incomplete"].append("unknown: %s on path %s" % (ob.name, pr.signature()[:40]))
                continue
            # sat: prefer models with a visible margin inside a small box (float replay must see the difference)
            cands = []
            reals = [c for c in pr.inputs.values() if z3.is_expr(c) and z3.is_real(c)]
            for box, margin in ((4, Fraction(1, 2)), (16, Fraction(1, 100)), (None, Fraction(1, 1000))):
                neg_m = _neg_with_margin(ob, margin)
                if neg_m is None:
                    break
                extra = [neg_m]
                if box is not None:
                    extra += [z3.And(c >= -box, c <= box) for c in reals]
                r2, m2 = _solve(eng, pr, extra, min(unit.ob_ms, 10000), seed)
                if r2 == "sat":
                    cands.append(m2)
                    if box is not None:
                        break
            cands.append(model)
            for k in range(2):
                r3, m3 = _solve(eng, pr, [z3.Not(ob.prop)], unit.ob_ms, seed + 17 * (k + 1))
                if r3 == "sat":
                    cands.append(m3)
            reproduced = False
            for m in cands:
                vals = _model_values(m, pr.inputs)
                status, failed, cctx = run_concrete(unit, vals, tier)
                if failed:
                    names = [f.name for f in failed]
                    f = failed[names.index(ob.name)] if ob.name in names else failed[0]
                    violation(vals, f.name, f.detail, "solver-model")
                    reproduced = True
                    break
            if not reproduced:
                res["unconfirmed"].append({"unit": unit.name, "obligation": ob.name, "why": "sat model(s) did not reproduce on the float code"})
                res["incomplete"].append("sat but not reproduced: %s" % ob.name)
        if nontrivial_path:
            res["nontrivial"] += len(obs_all)
        if len(res["samples"]) < 2 and obs_all:
            o = (obs or obs_all)[0]
            res["samples"].append({"unit": unit.name, "obligation": o.name, "path_condition": [str(c).replace("\n", " ")[:160] for c in pr.path[:6]],
                                   "formula": str(o.prop).replace("\n", " ")[:300], "verdict": "unsat (holds for all inputs on this path)" if not pending or r_all == "unsat" else "see counts"})
    # reachability witness (vacuity guard): at least one completed path with satisfiable path condition
    tried = 0
    for pr in prs:
        if pr.status == "ok":
            tried += 1
            if tried > 6:
                break  # (each attempt may cost a solver timeout: a witness is looked for on the first 6 completed paths only)
            r, _ = _solve(eng, pr, [], unit.ob_ms, seed)
            if r == "unknown":
                # definitional side constraints (fresh r with r*r == t, ...) outside the cone of influence of the path condition cannot make it
                # unreachable; retry with the side constraints that share variables with assume + path only
                r = _solve_sliced(eng, pr, unit.ob_ms, seed)
            if r == "sat":
                res["reachable_paths"] += 1
            if res["reachable_paths"] >= 3:
                break
    if res["completed_paths"] and not res["reachable_paths"]:
        res["incomplete"].append("vacuity: no completed path has a satisfiable path condition")
    st = eng.stats
    res["queries"] = st.solver_calls
    res["solver_time_s"] = round(st.solver_time, 3)
    res["forks"] = st.forks
    res["index_forks"] = st.index_forks
    res["pruned_branches"] = st.pruned
    res["wall_s"] = round(time.time() - t0, 2)
    res["status_counts"] = {}
    for pr in prs:
        res["status_counts"][pr.status] = res["status_counts"].get(pr.status, 0) + 1
    return res


def _guard(body, unit):
    """turn ordinary exceptions of the real code into an 'exception' path outcome"""

    def run():
        try:
            return body()
        except unit.raises:
            return Ctx("sym", unit=unit)
        except (Abort, NotEncodable):
            raise
        except Exception as e:
            raise core.PathException("%s: %s @ %s" % (type(e).__name__, e, _where(e)))

    return run


def _where(e):
    tb = traceback.extract_tb(e.__traceback__)
    for fr in reversed(tb):
        if "/repo/" in fr.filename:
            return "%s:%d" % (fr.filename.replace("/repo/", ""), fr.lineno)
    return "%s:%d" % (tb[-1].filename, tb[-1].lineno) if tb else "?"


def _compare_observed(eng, pr, pctx, cctx):
    """pinned exact values vs float values of everything passed to ctx.eq as 'got'"""
    if len(pctx.observed) != len(cctx.observed):
        return "different number of observations (%d vs %d): control flow differs" % (len(pctx.observed), len(cctx.observed))
    need_model = False
    for (n1, g1), (n2, g2) in zip(pctx.observed, cctx.observed):
        if n1 != n2:
            return "observation order differs: %s vs %s" % (n1, n2)
        if any(is_sym(v) for v in np.asarray(g1, dtype=object).reshape(-1)):
            need_model = True
    model = None
    if need_model:
        r, model = _solve(eng, pr, [], 20000)
        if r != "sat":
            return None  # cannot evaluate sqrt side conditions: skip silently (not a mismatch)
    for (n1, g1), (n2, g2) in zip(pctx.observed, cctx.observed):
        a = np.asarray(g1, dtype=object).reshape(-1)
        b = np.asarray(g2).reshape(-1)
        if len(a) != len(b):
            return "%s: size %d vs %d" % (n1, len(a), len(b))
        for x, y in zip(a, b):
            if isinstance(x, (SymBool, bool, np.bool_)):
                xv = z3.is_true(model.eval(x.t, model_completion=True)) if isinstance(x, SymBool) else bool(x)
                if xv != bool(y):
                    return "%s: %r vs %r" % (n1, xv, y)
                continue
            if isinstance(x, Sym):
                v = model.eval(x.t, model_completion=True)
                if z3.is_algebraic_value(v):
                    v = v.approx(30)
                try:
                    xv = float(Fraction(v.numerator_as_long(), v.denominator_as_long())) if not z3.is_int_value(v) else float(v.as_long())
                except Exception:
                    continue
            else:
                xv = float(x)
            yv = float(y)
            if abs(xv - yv) > 1e-7 * (1 + abs(yv)):
                return "%s: exact %r vs float %r" % (n1, xv, yv)
    return None
