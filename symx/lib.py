"""symx.lib -- small exact-arithmetic helpers shared by the harnesses (oracle side)."""
from fractions import Fraction as Fr

import numpy as np

from . import nparr


def cross3(a, b):
    return [a[1] * b[2] - a[2] * b[1], a[2] * b[0] - a[0] * b[2], a[0] * b[1] - a[1] * b[0]]


def dot3(a, b):
    return a[0] * b[0] + a[1] * b[1] + a[2] * b[2]


def quat_rot(w, x, y, z):
    """exact rotation matrix of the (not necessarily unit) rational quaternion"""
    w, x, y, z = Fr(w), Fr(x), Fr(y), Fr(z)
    n = w * w + x * x + y * y + z * z
    R = [
        [1 - 2 * (y * y + z * z) / n, 2 * (x * y - z * w) / n, 2 * (x * z + y * w) / n],
        [2 * (x * y + z * w) / n, 1 - 2 * (x * x + z * z) / n, 2 * (y * z - x * w) / n],
        [2 * (x * z - y * w) / n, 2 * (y * z + x * w) / n, 1 - 2 * (x * x + y * y) / n],
    ]
    a = np.empty((3, 3), dtype=object)
    for i in range(3):
        for j in range(3):
            a[i, j] = R[i][j]
    return a


# exact rational rotations: identity, quarter turns, Pythagorean planar turns, generic rational quaternions
ROTATIONS = [
    quat_rot(1, 0, 0, 0),
    quat_rot(1, 2, 3, 4),
    quat_rot(1, 1, 0, 0),  # 90 deg about x
    quat_rot(2, 0, 0, 1),  # (3/5,4/5) about z
    quat_rot(3, -1, 2, 1),
    quat_rot(0, 1, 1, 0),  # half turn about a diagonal
    quat_rot(1, 1, 1, 1),  # 120 deg about (1,1,1)
    quat_rot(5, 1, -2, 3),
]


def as_obj(a):
    return np.asarray(a, dtype=object)


def arr(a, sym):
    """object array (symbolic run) or float64 array (concrete run)"""
    if sym:
        return nparr.wrap(np.array(a, dtype=object))
    return np.array([[float(v) for v in row] for row in a] if np.ndim(a) == 2 else [float(v) for v in a], dtype=np.float64)


def affine(R, t, sym):
    M = np.empty((4, 4), dtype=object)
    M[...] = 0
    for i in range(3):
        for j in range(3):
            M[i, j] = R[i][j] if not isinstance(R, np.ndarray) else R[i, j]
        M[i, 3] = t[i]
    M[3, 3] = 1
    if sym:
        return nparr.wrap(M)
    return np.array([[float(v) for v in row] for row in M], dtype=np.float64)


def matmul(a, b):
    return np.dot(np.asarray(nparr.base(a) if isinstance(a, np.ndarray) else a, dtype=object), np.asarray(nparr.base(b) if isinstance(b, np.ndarray) else b, dtype=object))


def apply_h(M, p):
    """homogeneous product M.p for 3-vectors (oracle)"""
    M = np.asarray(nparr.base(M) if isinstance(M, np.ndarray) else M, dtype=object)
    d = len(p)
    return [sum(M[i, j] * p[j] for j in range(d)) + M[i, d] for i in range(d)]


# ---- logic helpers usable in both the symbolic and the concrete run of a unit body
def l_not(x):
    from .core import SymBool

    return ~x if isinstance(x, SymBool) else (not bool(x))


def l_and(*xs):
    r = True
    for x in xs:
        r = x & r if not isinstance(r, bool) or not isinstance(x, (bool, np.bool_)) else (bool(x) and r)
    return r


def l_or(*xs):
    r = False
    for x in xs:
        r = x | r if not isinstance(r, bool) or not isinstance(x, (bool, np.bool_)) else (bool(x) or r)
    return r


def l_iff(a, b):
    from .core import SymBool

    if isinstance(a, SymBool) or isinstance(b, SymBool):
        return a == b if isinstance(a, SymBool) else b == a
    return bool(a) == bool(b)


def l_count(xs):
    """number of true elements as an Int term / int"""
    import z3

    from .core import Sym, SymBool

    tot = 0
    for x in xs:
        tot = tot + (Sym(z3.If(x.t, z3.IntVal(1), z3.IntVal(0))) if isinstance(x, SymBool) else int(bool(x)))
    return tot
